(* Executable definitions used to check, by computation over Q/Z inside Coq,
   the quadrature constants that adaptive/learner/integrator_coeffs.py
   computed (exported verbatim into gen/Consts.v by harness/avh/trace_consts.py).
   Definitions only -- the statements are in Props/C08consts.v, the proofs in
   Proofs/QuadConstsProofs.v.

   Conventions: a float is a dyadic pair (m, e) meaning m * 2^e ([dy2Q]);
   a polynomial is the list of its coefficients, lowest degree first; two
   polynomials are equal ([poly_eq]) when all coefficients agree, a missing
   coefficient counting as 0. *)
From Coq Require Import ZArith QArith Qabs List Bool Arith.
From AVGen Require Import Consts.
Import ListNotations.
Local Open Scope Q_scope.

(* ------------------------------------------------------------------ *)
(* numbers *)

(* the exact value of an exported float *)
Definition dy2Q (p : Z * Z) : Q :=
  let (m, e) := p in
  match e with
  | Z0 => inject_Z m
  | Zpos k => inject_Z (m * Z.pow_pos 2 k)
  | Zneg k => m # Pos.iter xO 1%positive k          (* m / 2^k *)
  end.

Definition dy_eqb (p q : Z * Z) : bool := Z.eqb (fst p) (fst q) && Z.eqb (snd p) (snd q).

Definition Qn (n : nat) : Q := inject_Z (Z.of_nat n).

(* 2^-k *)
Definition two_pow_neg (k : nat) : Q := 1 # Pos.shiftl_nat 1 k.

(* the bound of C08_V_Vinv_close and C08_T_close: 2^-40 *)
Definition bound40 : Q := two_pow_neg 40.

(* arithmetic that keeps fractions in lowest terms; == to + * - / (Qred is the
   identity up to ==, see qadd_eq .. qdiv_eq in Proofs/QuadConstsProofs.v) *)
Definition qadd (a b : Q) : Q := Qred (a + b).
Definition qmul (a b : Q) : Q := Qred (a * b).
Definition qsub (a b : Q) : Q := Qred (a - b).
Definition qdiv (a b : Q) : Q := Qred (a / b).

Definition Qltb (a b : Q) : bool := negb (Qle_bool b a).

(* sum_{k<n} f k *)
Fixpoint sumQ (f : nat -> Q) (n : nat) : Q :=
  match n with O => 0 | S k => qadd (sumQ f k) (f k) end.

Definition delta (i j : nat) : Q := if Nat.eqb i j then 1 else 0.

(* ------------------------------------------------------------------ *)
(* polynomials over Q, coefficient lists, lowest degree first *)

Definition coef (p : list Q) (k : nat) : Q := nth k p 0.

Definition poly_eq (p q : list Q) : Prop := forall k, coef p k == coef q k.

Definition poly_eqb (p q : list Q) : bool :=
  forallb (fun k => Qeq_bool (coef p k) (coef q k)) (seq 0 (Nat.max (length p) (length q))).

Fixpoint padd (p q : list Q) : list Q :=
  match p, q with
  | [], _ => q
  | _, [] => p
  | a :: p', b :: q' => qadd a b :: padd p' q'
  end.

Definition pscale (c : Q) (p : list Q) : list Q := map (qmul c) p.
Definition psub (p q : list Q) : list Q := padd p (pscale (-1 # 1) q).
Definition pmulx (p : list Q) : list Q := 0 :: p.                      (* x * p *)

Fixpoint pmul (p q : list Q) : list Q :=
  match p with
  | [] => []
  | a :: p' => padd (pscale a q) (pmulx (pmul p' q))
  end.

(* composition p(q(x)), Horner *)
Fixpoint pcomp (p q : list Q) : list Q :=
  match p with
  | [] => []
  | c :: p' => padd [c] (pmul (pcomp p' q) q)
  end.

(* value at a point, Horner *)
Fixpoint peval (p : list Q) (x : Q) : Q :=
  match p with
  | [] => 0
  | c :: p' => c + x * peval p' x
  end.

(* int_{-1}^{1} p(x) dx : the monomial x^k integrates to 2/(k+1) for even k
   and to 0 for odd k *)
Fixpoint pint_from (k : nat) (p : list Q) : Q :=
  match p with
  | [] => 0
  | a :: p' => qadd (if Nat.even k then a * (2 # Pos.of_succ_nat k) else 0) (pint_from (S k) p')
  end.
Definition pint (p : list Q) : Q := pint_from 0 p.

(* sum_i cs[i] * ps[i] *)
Fixpoint lincomb (cs : list Q) (ps : list (list Q)) : list Q :=
  match cs, ps with
  | c :: cs', p :: ps' => padd (pscale c p) (lincomb cs' ps')
  | _, _ => []
  end.

(* Chebyshev polynomials of the second kind by their recurrence
   U_0 = 1, U_1 = 2x, U_{k+2} = 2x U_{k+1} - U_k; returns (U_k, U_{k+1}) *)
Fixpoint chebU_pair (k : nat) : list Q * list Q :=
  match k with
  | O => ([1], [0; 2 # 1])
  | S k' => let (a, b) := chebU_pair k' in (b, psub (pscale (2 # 1) (pmulx b)) a)
  end.
Definition chebU (k : nat) : list Q := fst (chebU_pair k).

(* ------------------------------------------------------------------ *)
(* access to the exported data *)

Definition vget (v : list (Z * Z)) (i : nat) : Q := dy2Q (nth i v (0, 0)%Z).
Definition mget (M : list (list (Z * Z))) (i j : nat) : Q := vget (nth i M []) j.

Definition mat_dims (M : list (list (Z * Z))) (r c : nat) : Prop :=
  length M = r /\ forall i, (i < r)%nat -> length (nth i M []) = c.
Definition mat_dimsb (M : list (list (Z * Z))) (r c : nat) : bool :=
  Nat.eqb (length M) r && forallb (fun i => Nat.eqb (length (nth i M [])) c) (seq 0 r).

(* number of nodes at depth d, the i-th node of depth d *)
Definition nn (d : nat) : nat := nth d ns 0%nat.
Definition node_raw (d i : nat) : Z * Z := nth i (nth d xi []) (0, 0)%Z.
Definition node (d i : nat) : Q := dy2Q (node_raw d i).

(* the k-th exported Legendre polynomial *)
Definition P (k : nat) : list Q := nth k legendre34 [].

(* ------------------------------------------------------------------ *)
(* (a) nodes *)

Definition nodes_stmt (d : nat) : Prop :=
  let n := nn d in
  length (nth d xi []) = n /\
  (forall i, (i < n)%nat -> node d i == - node d (n - 1 - i)) /\
  node d (n / 2) == 0 /\ node d 0 == -1 # 1 /\ node d (n - 1) == 1 /\
  (forall i, (S i < n)%nat -> node d i < node d (S i)) /\
  ((d < 3)%nat -> forall i, (i < n)%nat -> node_raw d i = node_raw (S d) (2 * i)).

Definition nodes_check (d : nat) : bool :=
  let n := nn d in
  Nat.eqb (length (nth d xi [])) n &&
  forallb (fun i => Qeq_bool (node d i) (- node d (n - 1 - i))) (seq 0 n) &&
  Qeq_bool (node d (n / 2)) 0 && Qeq_bool (node d 0) (-1 # 1) && Qeq_bool (node d (n - 1)) 1 &&
  forallb (fun i => Qltb (node d i) (node d (S i))) (seq 0 (n - 1)) &&
  (negb (d <? 3)%nat || forallb (fun i => dy_eqb (node_raw d i) (node_raw (S d) (2 * i))) (seq 0 n)).

(* ------------------------------------------------------------------ *)
(* (b) Legendre polynomials: Bonnet's recursion and orthogonality *)

(* i P_i = (2i-1) x P_{i-1} - (i-1) P_{i-2} *)
Definition bonnet_stmt (i : nat) : Prop :=
  length (P i) = S i /\
  poly_eq (pscale (Qn i) (P i))
          (psub (pscale (Qn (2 * i - 1)) (pmulx (P (i - 1)))) (pscale (Qn (i - 1)) (P (i - 2)))).

Definition bonnet_check (i : nat) : bool :=
  Nat.eqb (length (P i)) (S i) &&
  poly_eqb (pscale (Qn i) (P i))
           (psub (pscale (Qn (2 * i - 1)) (pmulx (P (i - 1)))) (pscale (Qn (i - 1)) (P (i - 2)))).

Definition legendre_head_stmt : Prop :=
  length legendre34 = 34%nat /\
  length (P 0) = 1%nat /\ poly_eq (P 0) [1] /\
  length (P 1) = 2%nat /\ poly_eq (P 1) [0; 1].

Definition legendre_head_check : bool :=
  Nat.eqb (length legendre34) 34 &&
  Nat.eqb (length (P 0)) 1 && poly_eqb (P 0) [1] &&
  Nat.eqb (length (P 1)) 2 && poly_eqb (P 1) [0; 1].

(* int_{-1}^{1} P_n P_m = 2/(2n+1) if n = m, 0 otherwise *)
Definition ortho_value (n m : nat) : Q :=
  if Nat.eqb n m then 2 # Pos.of_succ_nat (2 * n) else 0.
Definition ortho_stmt (n m : nat) : Prop := pint (pmul (P n) (P m)) == ortho_value n m.
Definition ortho_check (n m : nat) : bool := Qeq_bool (pint (pmul (P n) (P m))) (ortho_value n m).

(* ------------------------------------------------------------------ *)
(* (c) Newton polynomial over the Clenshaw-Curtis nodes -cos(i pi/(n-1)),
   i = 0..n-1: the monic polynomial (x^2 - 1) U_{n-2}(x) / 2^(n-2) *)

Definition newton_ref (n : nat) : list Q :=
  pscale (two_pow_neg (n - 2)) (pmul [-1 # 1; 0; 1] (chebU (n - 2))).

Definition newton_stmt (d : nat) : Prop :=
  length (nth d newton_c []) = S (nn d) /\
  poly_eq (map dy2Q (nth d newton_c [])) (newton_ref (nn d)).

Definition newton_check (d : nat) : bool :=
  Nat.eqb (length (nth d newton_c [])) (S (nn d)) &&
  poly_eqb (map dy2Q (nth d newton_c [])) (newton_ref (nn d)).

(* ------------------------------------------------------------------ *)
(* (d) V . V_inv is within 2^-40 of the identity, entrywise *)

Definition VVinv_entry (d i j : nat) : Q :=
  sumQ (fun k => mget (nth d V []) i k * mget (nth d V_inv []) k j) (nn d).

Definition VVinv_stmt (d : nat) : Prop :=
  let n := nn d in
  mat_dims (nth d V []) n n /\ mat_dims (nth d V_inv []) n n /\
  forall i j, (i < n)%nat -> (j < n)%nat -> Qabs (VVinv_entry d i j - delta i j) < bound40.

Definition VVinv_check (d : nat) : bool :=
  let n := nn d in
  mat_dimsb (nth d V []) n n && mat_dimsb (nth d V_inv []) n n &&
  forallb (fun i => forallb (fun j => Qltb (Qabs (VVinv_entry d i j - delta i j)) bound40) (seq 0 n)) (seq 0 n).

(* ------------------------------------------------------------------ *)
(* closeness to c * sqrt q, decided exactly with squares *)

(* [close_to_sqrt t c q delta = true] iff |t - c * sqrt q| < delta, for
   rational t c q delta with 0 <= q (proved over R in
   Proofs/QuadConstsProofs.v, close_to_sqrt_sound).  With s = c sqrt q,
   s^2 = c^2 q and s has the sign of c.  For 0 <= c:
     t - delta < s  iff  t - delta < 0  or  (t - delta)^2 < c^2 q
     s < t + delta  iff  0 < t + delta  and c^2 q < (t + delta)^2;
   for c < 0 the same test is applied to -t, -c. *)
Definition close_core (t c q delta : Q) : bool :=
  let s2 := c * c * q in
  let lo := t - delta in
  let hi := t + delta in
  (Qltb lo 0 || Qltb (lo * lo) s2) && (Qltb 0 hi && Qltb s2 (hi * hi)).

Definition close_to_sqrt (t c q delta : Q) : bool :=
  if Qltb c 0 then close_core (- t) (- c) q delta else close_core t c q delta.

(* ------------------------------------------------------------------ *)
(* (e) shift matrices.  In the orthonormal basis p_k = sqrt(k + 1/2) P_k the
   map f(x) |-> f((x + a)/2) has the matrix
     T[i][j] = sqrt((2j+1)/(2i+1)) * c_ij ,  P_j((x + a)/2) = sum_i c_ij P_i(x),
   a = -1 for T_left and a = +1 for T_right.  The c_ij are computed here from
   the exported Legendre polynomials, and the expansion is then checked. *)

(* the polynomial (x + a)/2 *)
Definition shift_poly (a : Q) : list Q := [qmul a (1 # 2); 1 # 2].

(* coefficients of p in the basis P_0 .. P_{n-1}, by elimination of the
   leading coefficient, highest degree first *)
Fixpoint leg_expand (n : nat) (p : list Q) : list Q :=
  match n with
  | O => []
  | S k =>
      let c := qdiv (coef p k) (coef (P k) k) in
      leg_expand k (psub p (pscale c (P k))) ++ [c]
  end.

Definition shifted (a : Q) (j : nat) : list Q := pcomp (P j) (shift_poly a).
Definition shift_coeffs (a : Q) (j : nat) : list Q := leg_expand 33 (shifted a j).

(* sqrt((2j+1)/(2i+1)) is the square root of this rational *)
Definition norm_ratio (i j : nat) : Q := Z.of_nat (2 * j + 1) # Pos.of_succ_nat (2 * i).

Definition T_stmt (T : list (list (Z * Z))) (a : Q) (j : nat) : Prop :=
  let cs := shift_coeffs a j in
  poly_eq (lincomb cs legendre34) (shifted a j) /\
  forall i, (i < 33)%nat ->
    close_to_sqrt (mget T i j) (coef cs i) (norm_ratio i j) bound40 = true.

Definition T_check (T : list (list (Z * Z))) (a : Q) (j : nat) : bool :=
  let cs := shift_coeffs a j in
  poly_eqb (lincomb cs legendre34) (shifted a j) &&
  forallb (fun i => close_to_sqrt (mget T i j) (coef cs i) (norm_ratio i j) bound40) (seq 0 33).

(* ------------------------------------------------------------------ *)
(* (d') V is the orthonormal Legendre basis at the nodes:
   V[d][i][j] is within 2^-40 of sqrt(j + 1/2) * P_j(x_i) *)

(* Horner with fractions kept in lowest terms; == peval *)
Fixpoint pevalr (p : list Q) (x : Q) : Q :=
  match p with
  | [] => 0
  | c :: p' => qadd c (qmul x (pevalr p' x))
  end.

Definition Vbasis_stmt (d : nat) : Prop :=
  let n := nn d in
  forall i j, (i < n)%nat -> (j < n)%nat ->
    close_to_sqrt (mget (nth d V []) i j) (pevalr (P j) (node d i)) (Z.of_nat (2 * j + 1) # 2) bound40 = true.

Definition Vbasis_check (d : nat) : bool :=
  let n := nn d in
  forallb (fun i => forallb (fun j =>
    close_to_sqrt (mget (nth d V []) i j) (pevalr (P j) (node d i)) (Z.of_nat (2 * j + 1) # 2) bound40)
    (seq 0 n)) (seq 0 n).

(* ------------------------------------------------------------------ *)
(* (f) scalars and the downdate coefficients
   alpha_k = sqrt((k+1)^2 / ((2k+1)(2k+3))), gamma_0 = gamma_1 = 0,
   gamma_k = sqrt(k^2 / (4k^2 - 1)) for k >= 2 *)

Definition alpha_sq (k : nat) : Q := Z.of_nat ((k + 1) * (k + 1)) # Pos.of_nat ((2 * k + 1) * (2 * k + 3)).
Definition gamma_sq (k : nat) : Q := if (k <? 2)%nat then 0 else Z.of_nat (k * k) # Pos.of_nat (4 * k * k - 1).

Definition scalars_stmt : Prop :=
  dy2Q eps == two_pow_neg 52 /\ dy2Q min_sep == (16 # 1) * dy2Q eps /\ ndiv_max = 20%Z /\
  Qabs (dy2Q hint - (1 # 10)) < two_pow_neg 56 /\
  length alpha = 33%nat /\ length gamma = 33%nat /\
  forall k, (k < 33)%nat ->
    close_to_sqrt (vget alpha k) 1 (alpha_sq k) bound40 = true /\
    close_to_sqrt (vget gamma k) 1 (gamma_sq k) bound40 = true.

Definition scalars_check : bool :=
  Qeq_bool (dy2Q eps) (two_pow_neg 52) && Qeq_bool (dy2Q min_sep) ((16 # 1) * dy2Q eps) && Z.eqb ndiv_max 20 &&
  Qltb (Qabs (dy2Q hint - (1 # 10))) (two_pow_neg 56) &&
  Nat.eqb (length alpha) 33 && Nat.eqb (length gamma) 33 &&
  forallb (fun k => close_to_sqrt (vget alpha k) 1 (alpha_sq k) bound40 &&
                    close_to_sqrt (vget gamma k) 1 (gamma_sq k) bound40) (seq 0 33).
