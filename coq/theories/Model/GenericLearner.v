(* The abstract learner interface (adaptive/learner/base_learner.py,
   BaseLearner) as a record of functions on an abstract state.  Wrappers
   (BalancingLearner, DataSaver) are modelled as functions of such a record,
   theorems about them quantify over ALL records, i.e. over every possible
   behaviour of the wrapped learners.  For execution the record is
   instantiated by a recorded oracle (Run/OracleChild.v).
   No proofs here except that the law records are inhabited. *)
From Coq Require Import ZArith.
From AV Require Import Base.Prelude.
Set Implicit Arguments.

Record Learner := mkLearner {
  state : Type;
  point : Type;
  value : Type;                       (* what tell() receives *)
  num : Type;                         (* losses and loss improvements *)
  blob : Type;                        (* what _get_data returns *)
  peqb : point -> point -> bool;      (* Python == / hash on points (dict keys) *)
  nltb : num -> num -> bool;          (* Python <  on losses *)
  neqb : num -> num -> bool;          (* Python == on losses *)
  inf : num;
  (* ask(n, tell_pending) -> (points, loss_improvements) *)
  ask : state -> nat -> bool -> (list point * list num) * state;
  tell : state -> point -> value -> state;
  tell_pending : state -> point -> state;
  remove_unfinished : state -> state;
  loss : state -> bool -> num;        (* loss(real) *)
  npoints : state -> nat;
  data : state -> list (point * value);
  pending : state -> list point;
  (* [restore old cur] = the state after cur.__setstate__(old.__getstate__()),
     i.e. what adaptive.utils.restore does on leaving its with-block *)
  restore : state -> state -> state;
  get_data : state -> blob;           (* _get_data *)
  set_data : state -> blob -> state   (* _set_data *)
}.

(* The comparison of losses is a strict total preorder; [neqb] is its
   equivalence (IEEE doubles without NaN; 0.0 == -0.0 is why this is not
   Leibniz equality). *)
Record NumLaws (L : Learner) : Prop := {
  nlt_irrefl : forall a : num L, nltb L a a = false;
  nlt_trans : forall a b c : num L, nltb L a b = true -> nltb L b c = true -> nltb L a c = true;
  neq_iff : forall a b : num L, neqb L a b = true <-> (nltb L a b = false /\ nltb L b a = false);
  nlt_neg_trans : forall a b c : num L, nltb L a b = false -> nltb L b c = false -> nltb L a c = false
}.

(* == on points is an equivalence relation *)
Record PointLaws (L : Learner) : Prop := {
  peq_refl : forall a : point L, peqb L a a = true;
  peq_sym : forall a b : point L, peqb L a b = peqb L b a;
  peq_trans : forall a b c : point L, peqb L a b = true -> peqb L b c = true -> peqb L a c = true
}.

(* "a <= b" in Python terms: not (b < a) *)
Definition nleb (L : Learner) (a b : num L) : bool := negb (nltb L b a).

(* ------------------------------------------------------------------ *)
(* A small concrete learner used for non-vacuity examples and for the
   vm_compute witnesses of the refuted statements: it proposes 0,1,2,...
   skipping what is known or pending; loss = 10 - known (- pending). *)
Module Toy.
  Record tst := mk { known : list (nat * nat); pend : list nat }.
  Definition busy (s : tst) (x : nat) : bool :=
    existsb (Nat.eqb x) (map fst (known s)) || existsb (Nat.eqb x) (pend s).
  Fixpoint first_free (s : tst) (fuel x : nat) : nat :=
    match fuel with 0 => x | S f => if busy s x then first_free s f (S x) else x end.
  Definition t_tell_pending (s : tst) (x : nat) : tst :=
    if existsb (Nat.eqb x) (pend s) then s else mk (known s) (pend s ++ [x]).
  Definition t_loss (s : tst) (real : bool) : nat :=
    10 - length (known s) - (if real then 0 else length (pend s)).
  Fixpoint t_ask (s : tst) (n : nat) : list nat * tst :=
    match n with
    | 0 => ([], s)
    | S n' => let x := first_free s (length (known s) + length (pend s) + 1) 0 in
              let '(xs, s') := t_ask (t_tell_pending s x) n' in (x :: xs, s')
    end.
  Definition t_tell (s : tst) (x y : nat) : tst :=
    mk (filter (fun kv => negb (Nat.eqb (fst kv) x)) (known s) ++ [(x, y)])
       (filter (fun p => negb (Nat.eqb p x)) (pend s)).
  Definition learner : Learner :=
    @mkLearner tst nat nat nat (list (nat * nat)) Nat.eqb Nat.ltb Nat.eqb 1000
      (fun s n commit => let '(xs, s') := t_ask s n in
                         ((xs, map (fun _ => 1) xs), if commit then s' else s))
      t_tell t_tell_pending
      (fun s => mk (known s) [])
      t_loss
      (fun s => length (known s))
      known pend
      (fun old cur => mk (known old) [])          (* like Learner1D: pending not in the pickle *)
      known
      (fun s b => mk b (pend s)).
  Definition init : tst := mk [] [].
End Toy.

Lemma toy_num_laws : NumLaws Toy.learner.
Proof.
  split; cbn [nltb neqb Toy.learner num].
  - intros a. apply Nat.ltb_irrefl.
  - intros a b c H1 H2. apply Nat.ltb_lt in H1, H2. apply Nat.ltb_lt. lia.
  - intros a b. rewrite Nat.eqb_eq, !Nat.ltb_ge. lia.
  - intros a b c H1 H2. apply Nat.ltb_ge in H1, H2. apply Nat.ltb_ge. lia.
Qed.

Lemma toy_point_laws : PointLaws Toy.learner.
Proof.
  split; cbn [peqb Toy.learner point].
  - apply Nat.eqb_refl.
  - apply Nat.eqb_sym.
  - intros a b c H1 H2. apply Nat.eqb_eq in H1, H2. apply Nat.eqb_eq. congruence.
Qed.

(* ------------------------------------------------------------------ *)
(* Histories of calls made on one learner through its public interface, the
   outputs it gives, and what can be observed of its state. *)
Section History.
  Variable L : Learner.

  Inductive lop :=
  | LAsk (n : nat) (commit : bool)
  | LTell (x : point L) (y : value L)
  | LTellPending (x : point L)
  | LLoss (real : bool)
  | LRemoveUnfinished.

  Inductive lout :=
  | LOAsk (pts : list (point L)) (imps : list (num L))
  | LOLoss (v : num L)
  | LONone.

  Definition lstep (s : state L) (o : lop) : state L * lout :=
    match o with
    | LAsk n c => let '((pts, imps), s') := ask L s n c in (s', LOAsk pts imps)
    | LTell x y => (tell L s x y, LONone)
    | LTellPending x => (tell_pending L s x, LONone)
    | LLoss real => (s, LOLoss (loss L s real))
    | LRemoveUnfinished => (remove_unfinished L s, LONone)
    end.

  Definition lrun (s : state L) (h : list lop) : state L :=
    fold_left (fun s o => fst (lstep s o)) h s.

  Fixpoint ltrace (s : state L) (h : list lop) : list lout :=
    match h with
    | [] => []
    | o :: h' => snd (lstep s o) :: ltrace (fst (lstep s o)) h'
    end.
End History.

Arguments LAsk {L}. Arguments LTell {L}. Arguments LTellPending {L}. Arguments LLoss {L}.
Arguments LRemoveUnfinished {L}.
Arguments LOAsk {L}. Arguments LOLoss {L}. Arguments LONone {L}.
