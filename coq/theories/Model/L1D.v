(* Executable model of adaptive/learner/learner1D.py (class Learner1D),
   mirroring the code's incremental algorithms line by line.

   The model is written once, in a Section over an abstract number type
   [num] with its operations, and an abstract loss function [L] (the
   learner's [loss_per_interval], called on scaled xs / ys exactly as the code
   calls it).  It is executed with IEEE doubles (Run/L1DRun.v, [L] = table of
   the answers recorded from the real run) and reasoned about generically
   (Proofs/L1DProofs.v).  No proofs here. *)
From AV Require Import Base.Prelude.
Set Implicit Arguments.

Section L1D.
  Variable num : Type.
  Variables (add sub mul div : num -> num -> num).
  Variables (ltb eqb : num -> num -> bool).
  Variables (zero one inf neg_inf : num).
  Variable is_nan : num -> bool.
  Variable is_inf : num -> bool.         (* +inf or -inf, as math.isinf *)
  Variable round12 : num -> num.         (* int(l * 1e12 + 0.5) / 1e12 *)
  Variable of_nat : nat -> num.

  Definition leb (a b : num) : bool := ltb a b || eqb a b.

  (* function values: a float, or a vector (numpy array, length >= 2) *)
  Inductive Y := YS (v : num) | YV (vs : list num).

  (* the learner's loss_per_interval, applied to scaled xs and ys *)
  Variable L : list (option num) -> list (option Y) -> num.

  (* constructor parameters *)
  Record params := mkparams {
    lo : num; hi : num;
    dx_eps : num;
    nn : nat;                  (* nth_neighbors *)
    factor : num               (* _recompute_losses_factor *)
  }.
  Variable P : params.

  Definition ival := (num * num)%type.

  Record st := mk {
    data : list (num * Y);         (* sorted by x *)
    pend : list num;               (* sorted *)
    nb : list num;                 (* keys of [neighbors] *)
    nbc : list num;                (* keys of [neighbors_combined] *)
    los : list (ival * num);       (* losses, kept sorted by interval *)
    losc : list (ival * num);      (* losses_combined *)
    bbx : num * num;
    bby : Y * Y;
    sx : num; sy : num;            (* _scale *)
    osy : num;                     (* _oldscale[1] *)
    mgrx : num                     (* x_scale captured by the loss managers *)
  }.

  Definition init : st :=
    mk [] [] [] [] [] [] (lo P, hi P) (YS inf, YS neg_inf)
       (sub (hi P) (lo P)) zero zero (sub (hi P) (lo P)).

  (* ---------------- sorted lists of numbers ---------------- *)
  Fixpoint mem (x : num) (l : list num) : bool :=
    match l with [] => false | y :: l' => eqb x y || mem x l' end.

  Fixpoint insert (x : num) (l : list num) : list num :=
    match l with
    | [] => [x]
    | y :: l' => if ltb x y then x :: l else if eqb x y then l else y :: insert x l'
    end.

  Fixpoint remove (x : num) (l : list num) : list num :=
    match l with
    | [] => []
    | y :: l' => if eqb x y then l' else y :: remove x l'
    end.

  (* _find_neighbors: nearest keys strictly left / right of x *)
  Fixpoint find_left (x : num) (l : list num) (acc : option num) : option num :=
    match l with
    | [] => acc
    | y :: l' => if ltb y x then find_left x l' (Some y) else acc
    end.
  Fixpoint find_right (x : num) (l : list num) : option num :=
    match l with
    | [] => None
    | y :: l' => if ltb x y then Some y else find_right x l'
    end.
  Definition find_neighbors (x : num) (l : list num) : option num * option num :=
    (find_left x l None, find_right x l).

  Fixpoint index_of (x : num) (l : list num) : nat :=
    match l with
    | [] => 0
    | y :: l' => if eqb x y then 0 else S (index_of x l')
    end.

  Fixpoint pairs (l : list num) : list ival :=
    match l with
    | a :: ((b :: _) as l') => (a, b) :: pairs l'
    | _ => []
    end.

  (* _get_intervals(x, neighbors, nn) *)
  Definition get_intervals (x : num) (l : list num) : list ival :=
    let i := index_of x l in
    let start := i - nn P - 1 in
    let stop := Nat.min (length l) (i + nn P + 2) in
    pairs (firstn (stop - start) (skipn start l)).

  (* ---------------- dictionaries ---------------- *)
  Fixpoint dget (x : num) (d : list (num * Y)) : option Y :=
    match d with
    | [] => None
    | (k, v) :: d' => if eqb x k then Some v else dget x d'
    end.
  Fixpoint dset (x : num) (y : Y) (d : list (num * Y)) : list (num * Y) :=
    match d with
    | [] => [(x, y)]
    | (k, v) :: d' => if ltb x k then (x, y) :: d
                      else if eqb x k then (x, y) :: d'
                      else (k, v) :: dset x y d'
    end.

  Definition ival_eqb (i j : ival) : bool := eqb (fst i) (fst j) && eqb (snd i) (snd j).
  Definition ival_ltb (i j : ival) : bool :=
    ltb (fst i) (fst j) || (eqb (fst i) (fst j) && ltb (snd i) (snd j)).

  Fixpoint lget (i : ival) (m : list (ival * num)) : option num :=
    match m with
    | [] => None
    | (k, v) :: m' => if ival_eqb i k then Some v else lget i m'
    end.
  Fixpoint lset (i : ival) (v : num) (m : list (ival * num)) : list (ival * num) :=
    match m with
    | [] => [(i, v)]
    | (k, w) :: m' => if ival_ltb i k then (i, v) :: m
                      else if ival_eqb i k then (i, v) :: m'
                      else (k, w) :: lset i v m'
    end.
  Fixpoint lpop (i : ival) (m : list (ival * num)) : list (ival * num) :=
    match m with
    | [] => []
    | (k, w) :: m' => if ival_eqb i k then m' else (k, w) :: lpop i m'
    end.
  Definition lpop_opt (a b : option num) (m : list (ival * num)) : list (ival * num) :=
    match a, b with Some a, Some b => lpop (a, b) m | _, _ => m end.

  (* ---------------- scaling, bounding box ---------------- *)
  Definition pmin (a b : num) : num := if ltb b a then b else a.   (* Python min(a, b) *)
  Definition pmax (a b : num) : num := if ltb a b then b else a.   (* Python max(a, b) *)
  Definition nanmin (a b : num) : num :=                           (* np.nanmin([a, b]) *)
    if is_nan a then b else if is_nan b then a else if ltb b a then b else a.
  Definition nanmax (a b : num) : num :=
    if is_nan a then b else if is_nan b then a else if ltb a b then b else a.
  (* np.max / np.min of an array: nan propagates *)
  Fixpoint npmax (l : list num) (acc : num) : num :=
    match l with
    | [] => acc
    | x :: l' => npmax l' (if is_nan acc then acc else if is_nan x then x else if ltb acc x then x else acc)
    end.
  Definition arr_max (l : list num) : num := match l with [] => zero | x :: l' => npmax l' x end.
  Fixpoint map2 (f : num -> num -> num) (a b : list num) : list num :=
    match a, b with x :: a', y :: b' => f x y :: map2 f a' b' | _, _ => [] end.

  (* _update_scale(x, y) *)
  Definition update_scale (s : st) (x : num) (y : Y) : st :=
    let bx := (pmin (fst (bbx s)) x, pmax (snd (bbx s)) x) in
    let sx' := sub (snd bx) (fst bx) in
    let '(by', sy') :=
      match y with
      | YS v =>
          let b0 := match fst (bby s) with YS m => m | YV _ => inf end in
          let b1 := match snd (bby s) with YS m => m | YV _ => neg_inf end in
          let mn := pmin b0 v in let mx := pmax b1 v in
          ((YS mn, YS mx), sub mx mn)
      | YV vs =>
          match bby s with
          | (YV mn, YV mx) =>
              let mn' := map2 nanmin mn vs in let mx' := map2 nanmax mx vs in
              ((YV mn', YV mx'), arr_max (map2 sub mx' mn'))
          | _ => ((YV vs, YV vs), arr_max (map2 sub vs vs))   (* first vector: ValueError branch *)
          end
      end in
    mk (data s) (pend s) (nb s) (nbc s) (los s) (losc s) bx by' sx' sy' (osy s) (mgrx s).

  Definition yscale (s : st) : num := if eqb (sy s) zero then one else sy s.   (* _scale[1] or 1 *)
  Definition scale_y (s : st) (y : Y) : Y :=
    match y with
    | YS v => YS (div v (yscale s))
    | YV vs => YV (map (fun v => div v (yscale s)) vs)
    end.

  (* _get_point_by_index(i + k - nn) *)
  Definition point_at (l : list num) (i k : nat) : option num :=
    if i + k <? nn P then None else nth_error l (i + k - nn P).

  (* _get_loss_in_interval *)
  Definition get_loss (s : st) (a b : num) : num :=
    if ltb (sub b a) (dx_eps P) then zero
    else
      let i := index_of a (nb s) in
      let xs := map (point_at (nb s) i) (seq 0 (2 * nn P + 2)) in
      let ys := map (fun ox => match ox with Some x => dget x (data s) | None => None end) xs in
      L (map (option_map (fun x => div x (sx s))) xs) (map (option_map (scale_y s)) ys).

  (* the walk of _update_interpolated_loss_in_interval over neighbors_combined:
     "a = x_left; while b != x_right: b = right neighbour of a; set (a, b); a = b".
     Written as a fold over the consecutive pairs (p, q) of the combined points
     with x_left <= p < x_right, which is the same set of assignments whenever
     x_left and x_right are combined points (always, since real points are
     combined points; the code would raise otherwise). *)
  Definition walk (a xr : num) (loss dx : num) (keys : list num) (m : list (ival * num))
    : list (ival * num) :=
    fold_left (fun m pq => if leb a (fst pq) && ltb (fst pq) xr
                           then lset pq (div (mul (sub (snd pq) (fst pq)) loss) dx) m else m)
              (pairs keys) m.

  Definition with_los (s : st) (l lc : list (ival * num)) : st :=
    mk (data s) (pend s) (nb s) (nbc s) l lc (bbx s) (bby s) (sx s) (sy s) (osy s) (mgrx s).

  Definition update_interp (s : st) (iv : ival) : st :=
    let '(a, b) := iv in
    let loss := get_loss s a b in
    with_los s (lset (a, b) loss (los s))
             (walk a b loss (sub b a) (nbc s) (losc s)).

  Definition set_opt (a b : option num) (v : num) (m : list (ival * num)) : list (ival * num) :=
    match a, b with Some a, Some b => lset (a, b) v m | _, _ => m end.

  (* _update_losses(x, real) *)
  Definition update_losses (s : st) (x : num) (real : bool) : st :=
    let '(xl, xr) := find_neighbors x (nb s) in
    let '(a, b) := find_neighbors x (nbc s) in
    let s1 := with_los s (los s) (lpop_opt a b (losc s)) in
    let s2 :=
      if real then
        let s' := fold_left update_interp (get_intervals x (nb s1)) s1 in
        with_los s' (lpop_opt xl xr (los s')) (lpop_opt xl xr (losc s'))
      else
        match xl, xr with
        | Some l, Some r =>
            let dx := sub r l in
            match lget (l, r) (los s1) with
            | Some loss =>
                with_los s1 (los s1)
                  (set_opt (Some x) b (div (mul (sub (match b with Some b' => b' | None => x end) x) loss) dx)
                    (set_opt a (Some x) (div (mul (sub x (match a with Some a' => a' | None => x end)) loss) dx)
                       (losc s1)))
            | None => s1     (* KeyError in the code; unreachable under the invariant *)
            end
        | _, _ => s1
        end in
    let left_unknown := match xl with None => true | Some _ => negb real && match xr with None => true | _ => false end end in
    let s3 := if left_unknown then with_los s2 (los s2) (set_opt a (Some x) inf (losc s2)) else s2 in
    let right_unknown := match xr with None => true | Some _ => negb real && match xl with None => true | _ => false end end in
    if right_unknown then with_los s3 (los s3) (set_opt (Some x) b inf (losc s3)) else s3.

  (* ---------------- sort keys of the loss managers ---------------- *)
  (* finite_loss(ival, loss, x_scale) for a 2-tuple, resp. a 3-tuple with count n *)
  Definition finite_loss2 (iv : ival) (loss xs : num) : num :=
    round12 (if is_inf loss || is_nan loss then div (sub (snd iv) (fst iv)) xs else loss).
  Definition finite_loss3 (iv : ival) (n : nat) (loss xs : num) : num :=
    round12 (if is_inf loss || is_nan loss then div (div (sub (snd iv) (fst iv)) xs) (of_nat n) else loss).

  (* sort key order of an ItemSortedDict: (-finite_loss, ival) ascending *)
  Definition key2_ltb (xs : num) (e1 e2 : ival * num) : bool :=
    let f1 := finite_loss2 (fst e1) (snd e1) xs in
    let f2 := finite_loss2 (fst e2) (snd e2) xs in
    ltb f2 f1 || (eqb f1 f2 && ival_ltb (fst e1) (fst e2)).

  Fixpoint sort_insert {A} (lt : A -> A -> bool) (x : A) (l : list A) : list A :=
    match l with
    | [] => [x]
    | y :: l' => if lt y x then y :: sort_insert lt x l' else x :: l
    end.
  Definition sort_by {A} (lt : A -> A -> bool) (l : list A) : list A :=
    fold_left (fun acc x => sort_insert lt x acc) l [].

  (* reversed(self.losses) then recompute every interval (the rescale sweep) *)
  Definition sweep (s : st) : st :=
    let order := rev (map fst (sort_by (key2_ltb (mgrx s)) (los s))) in
    fold_left update_interp order s.

  (* ---------------- operations ---------------- *)
  Definition in_bounds (x : num) : bool := leb (lo P) x && leb x (hi P).

  Definition tell (s : st) (x : num) (y : Y) : st :=
    match dget x (data s) with
    | Some _ => s
    | None =>
        let s0 := mk (dset x y (data s)) (remove x (pend s)) (nb s) (nbc s) (los s) (losc s)
                     (bbx s) (bby s) (sx s) (sy s) (osy s) (mgrx s) in
        if negb (in_bounds x) then s0
        else
          let s1 := mk (data s0) (pend s0) (insert x (nb s0)) (insert x (nbc s0)) (los s0) (losc s0)
                       (bbx s0) (bby s0) (sx s0) (sy s0) (osy s0) (mgrx s0) in
          let s2 := update_scale s1 x y in
          let s3 := update_losses s2 x true in
          if ltb (mul (factor P) (osy s3)) (sy s3) then
            let s4 := sweep s3 in
            mk (data s4) (pend s4) (nb s4) (nbc s4) (los s4) (losc s4) (bbx s4) (bby s4)
               (sx s4) (sy s4) (sy s4) (mgrx s4)
          else s3
    end.

  Definition tell_pending (s : st) (x : num) : st :=
    match dget x (data s) with
    | Some _ => s
    | None =>
        let s1 := mk (data s) (insert x (pend s)) (nb s) (insert x (nbc s)) (los s) (losc s)
                     (bbx s) (bby s) (sx s) (sy s) (osy s) (mgrx s) in
        update_losses s1 x false
    end.

  Definition remove_unfinished (s : st) : st :=
    mk (data s) [] (nb s) (nb s) (los s) (los s) (bbx s) (bby s) (sx s) (sy s) (osy s) (mgrx s).

  (* ---------------- tell_many: the batch path ---------------- *)
  Fixpoint merge_sorted (fuel : nat) (a b : list num) : list num :=
    match fuel with
    | 0 => a ++ b
    | S f =>
        match a, b with
        | [], _ => b
        | _, [] => a
        | x :: a', y :: b' =>
            if ltb x y then x :: merge_sorted f a' b
            else if eqb x y then x :: merge_sorted f a' b'
            else y :: merge_sorted f a b'
        end
    end.

  Definition y_components (y : Y) : list num := match y with YS v => [v] | YV vs => vs end.

  (* values.min(axis=0) / values.max(axis=0): nan propagates *)
  Definition np_min2 (a b : num) : num := if is_nan a then a else if is_nan b then b else if ltb b a then b else a.
  Definition np_max2 (a b : num) : num := if is_nan a then a else if is_nan b then b else if ltb a b then b else a.
  Definition col_fold (f : num -> num -> num) (ys : list Y) : list num :=
    match ys with
    | [] => []
    | y :: ys' => fold_left (fun acc y' => map2 f acc (y_components y')) ys' (y_components y)
    end.
  Definition wrap_like (y : Y) (l : list num) : Y :=
    match y with YS _ => YS (match l with v :: _ => v | [] => zero end) | YV _ => YV l end.

  Fixpoint last_num (l : list num) (d : num) : num :=
    match l with [] => d | [x] => x | _ :: l' => last_num l' d end.

  (* the construction of losses_combined and to_interpolate *)
  Fixpoint batch_combined (ivs : list ival) (s : st) (lc : list (ival * num)) (ti : list ival)
    : list (ival * num) * list ival :=
    match ivs with
    | [] => (lc, rev ti)
    | iv :: ivs' =>
        match lget iv (los s) with
        | Some v => batch_combined ivs' s (lset iv v lc) ti
        | None =>
            let lc' := lset iv inf lc in
            let ti' :=
              match ti with
              | (a, b) :: rest =>
                  if eqb b (fst iv) && negb (mem b (nb s)) then (a, snd iv) :: rest
                  else iv :: ti
              | [] => [iv]
              end in
            batch_combined ivs' s lc' ti'
        end
    end.

  Definition tell_many_batch (s : st) (xys : list (num * Y)) : st :=
    let data' := fold_left (fun d xy => dset (fst xy) (snd xy) d) xys (data s) in
    let pend' := fold_left (fun p xy => remove (fst xy) p) xys (pend s) in
    let points := map fst data' in
    let comb := merge_sorted (length pend' + length points) pend' points in
    (* min(bounds[0], points_combined.min()), max(bounds[1], points_combined.max()):
       the x-extent never shrinks below the domain (repaired in /repo; before, the
       data extent alone was taken) *)
    let bx := (pmin (lo P) (match comb with x :: _ => x | [] => zero end),
               pmax (hi P) (last_num comb zero)) in
    let ys := map snd data' in
    let y0 := match ys with y :: _ => y | [] => YS zero end in
    let mn := col_fold np_min2 ys in let mx := col_fold np_max2 ys in
    let sx' := sub (snd bx) (fst bx) in
    let sy' := arr_max (map2 sub mx mn) in
    let s1 := mk data' pend' points comb [] [] bx (wrap_like y0 mn, wrap_like y0 mx) sx' sy' sy' sx' in
    let l := fold_left (fun m iv => lset iv (get_loss s1 (fst iv) (snd iv)) m) (pairs points) [] in
    let s2 := with_los s1 l [] in
    let '(lc, ti) := batch_combined (pairs comb) s2 [] [] in
    let s3 := with_los s2 l lc in
    fold_left (fun s iv => match lget iv (los s) with Some _ => update_interp s iv | None => s end) ti s3.

  Definition tell_many (s : st) (xys : list (num * Y)) (force : bool) : st :=
    if negb force && negb ((length (data s) <? 2 * length xys) && (2 <? length xys))
    then fold_left (fun s xy => tell s (fst xy) (snd xy)) xys s
    else tell_many_batch s xys.

  (* ---------------- ask ---------------- *)
  Definition missing_bounds (s : st) : list num :=
    let bs := if eqb (lo P) (hi P) then [lo P] else [lo P; hi P] in
    filter (fun b => match dget b (data s) with Some _ => false | None => negb (mem b (pend s)) end) bs.

  (* np.linspace(a, b, n).tolist() *)
  Definition np_linspace (a b : num) (n : nat) : list num :=
    match n with
    | 0 => []
    | 1 => [add (mul (of_nat 0) (sub b a)) a]
    | S m =>
        let step := div (sub b a) (of_nat m) in
        map (fun i => if i =? m then b
                      else if eqb step zero then add (mul (div (of_nat i) (of_nat m)) (sub b a)) a
                      else add (mul (of_nat i) step) a) (seq 0 n)
    end.

  (* linspace(x_left, x_right, n) of learner1D.py *)
  Definition linspace (a b : num) (n : nat) : list num :=
    match n with
    | 1 => []
    | _ => let step := div (sub b a) (of_nat n) in
           map (fun i => add a (mul step (of_nat i))) (seq 1 (n - 1))
    end.

  Definition qual := (ival * nat * num)%type.        (* ((x_l, x_r), n, loss) *)
  Definition q_iv (q : qual) := fst (fst q).
  Definition q_n (q : qual) := snd (fst q).
  Definition q_loss (q : qual) := snd q.

  (* order of the [quals] ItemSortedDict: key (-finite_loss3, (x_l, x_r, n)) *)
  Definition qual_ltb (xs : num) (q1 q2 : qual) : bool :=
    let f1 := finite_loss3 (q_iv q1) (q_n q1) (q_loss q1) xs in
    let f2 := finite_loss3 (q_iv q2) (q_n q2) (q_loss q2) xs in
    ltb f2 f1 ||
    (eqb f1 f2 && (ival_ltb (q_iv q1) (q_iv q2) || (ival_eqb (q_iv q1) (q_iv q2) && (q_n q1 <? q_n q2)))).

  (* self._loss(losses_combined, ival) >= self._loss(quals, qual): tuple comparison
     (l1, (a, b)) >= (l2, (a', b', n)) *)
  Definition ival_ge_qual (xs : num) (e : ival * num) (q : qual) : bool :=
    let f1 := finite_loss2 (fst e) (snd e) xs in
    let f2 := finite_loss3 (q_iv q) (q_n q) (q_loss q) xs in
    ltb f2 f1 || (eqb f1 f2 && ival_ltb (q_iv q) (fst e)).
    (* equal losses: (a,b) >= (a',b',n) iff (a,b) > (a',b') lexicographically,
       because a 2-tuple that is a prefix of a 3-tuple is smaller *)

  Fixpoint ask_loop (k : nat) (xs : num) (rest : list (ival * num)) (quals : list qual) : list qual :=
    match k with
    | 0 => quals
    | S k' =>
        match quals, rest with
        | [], [] => quals                      (* TypeError in the code; unreachable *)
        | [], e :: rest' =>
            ask_loop k' xs rest' (sort_insert (qual_ltb xs) (fst e, 2, div (snd e) (of_nat 2)) quals)
        | q :: qs, [] =>
            ask_loop k' xs rest
              (sort_insert (qual_ltb xs) (q_iv q, S (q_n q), div (mul (q_loss q) (of_nat (q_n q))) (of_nat (S (q_n q)))) qs)
        | q :: qs, e :: rest' =>
            if ival_ge_qual xs e q
            then ask_loop k' xs rest' (sort_insert (qual_ltb xs) (fst e, 2, div (snd e) (of_nat 2)) quals)
            else ask_loop k' xs rest
              (sort_insert (qual_ltb xs) (q_iv q, S (q_n q), div (mul (q_loss q) (of_nat (q_n q))) (of_nat (S (q_n q)))) qs)
        end
    end.

  Definition first_num (l : list num) (d : num) : num := match l with x :: _ => x | [] => d end.

  Definition ask_points (s : st) (n : nat) : list num * list num :=
    match n with
    | 0 => ([], [])
    | _ =>
        let mb := missing_bounds s in
        if n <=? length mb then (firstn n mb, repeat inf n)
        else if (length (data s) + length (pend s) =? 0)
        then (np_linspace (lo P) (hi P) n, repeat inf n)
        else
          let allp := merge_sorted (length (data s) + length (pend s)) (map fst (data s)) (pend s) in
          let q0 :=
            (if mem (lo P) mb then [((lo P, first_num allp (lo P)), 1, inf)] else []) ++
            (if mem (hi P) mb then [((last_num allp (hi P), hi P), 1, inf)] else []) in
          let quals0 := sort_by (qual_ltb (sx s)) q0 in
          let sorted_c := sort_by (key2_ltb (mgrx s)) (losc s) in
          let quals := ask_loop (n - length mb) (sx s) sorted_c quals0 in
          (mb ++ flat_map (fun q => linspace (fst (q_iv q)) (snd (q_iv q)) (q_n q)) quals,
           repeat inf (length mb) ++ flat_map (fun q => repeat (q_loss q) (q_n q - 1)) quals)
    end.

  Definition ask (s : st) (n : nat) (commit : bool) : st * (list num * list num) :=
    let r := ask_points s n in
    ((if commit then fold_left tell_pending (fst r) s else s), r).

  (* loss(real) *)
  Definition loss (s : st) (real : bool) : num :=
    match missing_bounds s with
    | _ :: _ => inf
    | [] =>
        match sort_by (key2_ltb (mgrx s)) (if real then los s else losc s) with
        | [] => inf
        | e :: _ => snd e
        end
    end.

  Inductive op :=
  | Tell (x : num) (y : Y)
  | TellPending (x : num)
  | TellMany (xys : list (num * Y)) (force : bool)
  | RemoveUnfinished
  | Ask (n : nat) (commit : bool).

  Definition step (s : st) (o : op) : st * (list num * list num) :=
    match o with
    | Tell x y => (tell s x y, ([], []))
    | TellPending x => (tell_pending s x, ([], []))
    | TellMany xys f => (tell_many s xys f, ([], []))
    | RemoveUnfinished => (remove_unfinished s, ([], []))
    | Ask n c => ask s n c
    end.

  Definition run (s : st) (h : list op) : st := fold_left (fun s o => fst (step s o)) h s.
End L1D.

Arguments Ask {num}. Arguments RemoveUnfinished {num}.
