(* Executable model of adaptive/learner/data_saver.py (DataSaver) over an
   abstract wrapped learner [L], a type [R] of full results and the picker
   [pick] (arg_picker).  extra_data is an OrderedDict: an association list in
   insertion order whose keys are compared with Python's == on points.
   No proofs here. *)
From AV Require Import Base.Prelude Model.GenericLearner.
Set Implicit Arguments.

Section DataSaver.
  Variable L : Learner.
  Variable R : Type.
  Variable pick : R -> value L.

  Record dst := mk {
    child : state L;                      (* self.learner *)
    extra : list (point L * R)            (* self.extra_data *)
  }.

  Definition init (k : state L) : dst := mk k [].

  (* OrderedDict.__setitem__: an existing key keeps its position (and its
     key object), a new one goes last *)
  Fixpoint aset (x : point L) (r : R) (e : list (point L * R)) : list (point L * R) :=
    match e with
    | [] => [(x, r)]
    | (x', r') :: e' => if peqb L x' x then (x', r) :: e' else (x', r') :: aset x r e'
    end.

  Fixpoint alookup (x : point L) (e : list (point L * R)) : option R :=
    match e with
    | [] => None
    | (x', r') :: e' => if peqb L x' x then Some r' else alookup x e'
    end.

  (* def tell(self, x, result): y = self.arg_picker(result);
     self.extra_data[x] = result; self.learner.tell(x, y) *)
  Definition tell (s : dst) (x : point L) (result : R) : dst :=
    let y := pick result in
    let e := aset x result (extra s) in
    mk (GenericLearner.tell L (child s) x y) e.

  (* DataSaver does not override tell_many: BaseLearner.tell_many is
     "for x, y in zip(xs, ys): self.tell(x, y)" *)
  Definition tell_many (s : dst) (xrs : list (point L * R)) : dst :=
    fold_left (fun s xr => tell s (fst xr) (snd xr)) xrs s.

  Definition tell_pending (s : dst) (x : point L) : dst :=
    mk (GenericLearner.tell_pending L (child s) x) (extra s).

  Definition ask (s : dst) (n : nat) (commit : bool) : (list (point L) * list (num L)) * dst :=
    let '(a, k) := GenericLearner.ask L (child s) n commit in (a, mk k (extra s)).

  Definition loss (s : dst) (real : bool) : num L := GenericLearner.loss L (child s) real.

  Definition remove_unfinished (s : dst) : dst :=
    mk (GenericLearner.remove_unfinished L (child s)) (extra s).

  (* def __getattr__(self, attr): return getattr(self.learner, attr) --
     every other attribute (data, pending_points, npoints, ...) is the child's *)
  Definition getattr {A} (attr : state L -> A) (s : dst) : A := attr (child s).

  (* def _get_data(self): return self.learner._get_data(), self.extra_data *)
  Definition get_data (s : dst) : blob L * list (point L * R) :=
    (GenericLearner.get_data L (child s), extra s).

  (* def _set_data(self, data): learner_data, self.extra_data = data;
     self.learner._set_data(learner_data) *)
  Definition set_data (s : dst) (d : blob L * list (point L * R)) : dst :=
    mk (GenericLearner.set_data L (child s) (fst d)) (snd d).

  (* histories: the full result travels in the Tell *)
  Inductive op :=
  | Ask (n : nat) (commit : bool)
  | Tell (x : point L) (r : R)
  | TellMany (xrs : list (point L * R))
  | TellPending (x : point L)
  | Loss (real : bool)
  | RemoveUnfinished.

  Definition step (s : dst) (o : op) : dst * lout L :=
    match o with
    | Ask n c => let '((pts, imps), s') := ask s n c in (s', LOAsk pts imps)
    | Tell x r => (tell s x r, LONone)
    | TellMany xrs => (tell_many s xrs, LONone)
    | TellPending x => (tell_pending s x, LONone)
    | Loss real => (s, LOLoss (loss s real))
    | RemoveUnfinished => (remove_unfinished s, LONone)
    end.

  Definition run (s : dst) (h : list op) : dst := fold_left (fun s o => fst (step s o)) h s.

  Fixpoint trace (s : dst) (h : list op) : list (lout L) :=
    match h with
    | [] => []
    | o :: h' => snd (step s o) :: trace (fst (step s o)) h'
    end.

  (* the same history as the unwrapped learner sees it: picked values, a
     batch being the sequence of its tells *)
  Definition pick_ops (o : op) : list (lop L) :=
    match o with
    | Ask n c => [LAsk n c]
    | Tell x r => [LTell x (pick r)]
    | TellMany xrs => map (fun xr => LTell (fst xr) (pick (snd xr))) xrs
    | TellPending x => [LTellPending x]
    | Loss real => [LLoss real]
    | RemoveUnfinished => [LRemoveUnfinished]
    end.

  (* what the unwrapped learner in state k answers to the operation *)
  Definition out_on_child (k : state L) (o : op) : lout L :=
    match o with
    | TellMany _ => LONone
    | _ => match pick_ops o with c :: _ => snd (lstep k c) | [] => LONone end
    end.

  Fixpoint ctrace (k : state L) (h : list op) : list (lout L) :=
    match h with
    | [] => []
    | o :: h' => out_on_child k o :: ctrace (lrun k (pick_ops o)) h'
    end.

  (* the (point, full result) pairs an operation tells, in order *)
  Definition told_of (o : op) : list (point L * R) :=
    match o with
    | Tell x r => [(x, r)]
    | TellMany xrs => xrs
    | _ => []
    end.
  Definition tolds (h : list op) : list (point L * R) := flat_map told_of h.
End DataSaver.

Arguments Ask {L R}. Arguments Tell {L R}. Arguments TellMany {L R}. Arguments TellPending {L R}.
Arguments Loss {L R}. Arguments RemoveUnfinished {L R}.
