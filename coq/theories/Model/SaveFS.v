(* Executable model of adaptive/utils.py [save]/[load] and of
   BaseLearner.load (adaptive/learner/base_learner.py) over a small file
   system.  No proofs here.

     def save(fname, data, compress=True):
         fname = os.path.expanduser(fname)          (identity on the paths used)
         dirname = os.path.dirname(fname)
         if dirname: os.makedirs(dirname, exist_ok=True)
         blob = ...pickle, gzip...                  (no file-system step)
         temp_file = f"{fname}.{os.getpid()}"
         try:
             with open(temp_file, "wb") as f: f.write(blob)
         except OSError: return False
         try: os.replace(temp_file, fname)
         except OSError: return False
         finally:
             if os.path.exists(temp_file): os.remove(temp_file)
         return True

   A file system is an association list path -> bytes plus a list of
   directories.  An environment [env : nat -> decision] decides, for the i-th
   file-system call of the run, whether it succeeds, fails with OSError, or the
   process dies there; for [write] the decision carries the number of bytes of
   the chunk that reach the file before the fault.  Death at call i leaves the
   state produced by calls 0..i-1 (plus the partial write), so "all
   environments" covers every execution prefix.  [os.replace] is atomic
   (trusted: POSIX rename): it either happened or it did not.

   The body of the [with] block is modelled as [for c in chunks: f.write(c)]
   and the content to be saved is [concat chunks]; the code as it stands is
   the instance [chunks = [blob]].  The write and close steps are those of the
   RAW file (where write(2)/close(2) happen): with the buffered file that
   open(.., "wb") returns, the raw write of a small blob takes place when the
   file is closed, immediately before the raw close -- the same sequence.  A
   raw write that comes back SHORT without an error (k < len bytes accepted) and
   is retried by the BufferedWriter is the chunking [firstn k c; skipn k c]; the
   theorems hold for every chunking, so no extra decision is needed for it.
   (What the model cannot express is code that ignores the count of a short raw
   write: that is a different program, whose content-to-be-saved is no longer
   the blob; the harness oracle decides that case.)

   Traces are kept newest-first ([ev :: tr]); the index of the next call is
   [length tr]. *)
From Coq Require Import String Ascii NArith.
From AV Require Import Base.Prelude.
Set Implicit Arguments.

Definition path := string.
Definition bytes := list N.      (* byte values; the model never looks inside *)

Record fs := mkfs { files : list (path * bytes); dirs : list path }.

Fixpoint alookup (p : path) (l : list (path * bytes)) : option bytes :=
  match l with
  | [] => None
  | (q, b) :: l' => if String.eqb p q then Some b else alookup p l'
  end.

Fixpoint aset (p : path) (b : bytes) (l : list (path * bytes)) : list (path * bytes) :=
  match l with
  | [] => [(p, b)]
  | (q, c) :: l' => if String.eqb p q then (q, b) :: l' else (q, c) :: aset p b l'
  end.

Fixpoint adel (p : path) (l : list (path * bytes)) : list (path * bytes) :=
  match l with
  | [] => []
  | (q, c) :: l' => if String.eqb p q then adel p l' else (q, c) :: adel p l'
  end.

Definition lookup (p : path) (s : fs) : option bytes := alookup p (files s).
Definition set_file (p : path) (b : bytes) (s : fs) : fs := mkfs (aset p b (files s)) (dirs s).
Definition del_file (p : path) (s : fs) : fs := mkfs (adel p (files s)) (dirs s).
Definition mem (p : path) (s : fs) : bool := match lookup p s with Some _ => true | None => false end.
Definition is_dir (d : path) (s : fs) : bool := existsb (String.eqb d) (dirs s).
Definition add_dir (d : path) (s : fs) : fs :=
  if is_dir d s then s else mkfs (files s) (dirs s ++ [d]).

(* data written through an open handle is appended to the file *)
Definition append_file (p : path) (d : bytes) (s : fs) : fs :=
  match lookup p s with
  | Some b => set_file p (b ++ d) s
  | None => s
  end.

(* ------------------------------------------------------------------ *)
(* posixpath.dirname:  i = p.rfind('/')+1; head = p[:i];
   if head and head != '/'*len(head): head = head.rstrip('/') *)
Definition slash : ascii := "/"%char.

Fixpoint drop_slashes (l : list ascii) : list ascii :=
  match l with
  | c :: l' => if Ascii.eqb c slash then drop_slashes l' else l
  | [] => []
  end.

Fixpoint drop_to_slash (l : list ascii) : list ascii :=
  match l with
  | [] => []
  | c :: l' => if Ascii.eqb c slash then l else drop_to_slash l'
  end.

Definition dirname (p : path) : path :=
  let h := drop_to_slash (rev (list_ascii_of_string p)) in
  string_of_list_ascii (rev (match drop_slashes h with [] => h | h' => h' end)).

Definition is_empty (p : string) : bool := match p with EmptyString => true | _ => false end.

Definition dirname_opt (p : path) : option path :=
  let d := dirname p in if is_empty d then None else Some d.

(* os.makedirs creates the missing ancestors as well *)
Fixpoint proper_ancestors (fuel : nat) (d : path) : list path :=
  match fuel with
  | 0 => []
  | S f => let d' := dirname d in
           if is_empty d' || String.eqb d' d then [] else proper_ancestors f d' ++ [d']
  end.

Definition makedirs (d : path) (s : fs) : fs :=
  add_dir d (fold_left (fun s a => add_dir a s) (proper_ancestors (String.length d) d) s).

(* f"{fname}.{os.getpid()}" *)
Definition tmp_name (fname pid : string) : path := String.append fname (String "."%char pid).

(* ------------------------------------------------------------------ *)
Inductive decision := Ok | Fail (n : nat) | Die (n : nat).
Definition env := nat -> decision.

Inductive syscall := SMakedirs | SOpen | SWrite | SClose | SReplace | SExists | SRemove.

(* what the caller sees of one call; [os.path.exists] answers RTrue/RFalse
   (it swallows OSError and answers False) *)
Inductive res := ROk | RFail | RDie | RTrue | RFalse.

Record event := mkev { ev_sc : syscall; ev_p1 : path; ev_p2 : path; ev_n : nat; ev_res : res }.

Inductive outcome :=
| Returned (b : bool)      (* save returned True / False *)
| Raised (sc : syscall)    (* an OSError raised by this call propagated out of save *)
| Died.                    (* the process died inside save *)

Record result := mkres { r_out : outcome; r_fs : fs; r_trace : list event }.

Definition E0 : string := EmptyString.

Section Save.
  Variable e : env.
  Variable dir : option path.     (* os.path.dirname(fname), None when empty *)
  Variables dst tmp : path.

  (* open(path, "wb") needs the parent directory *)
  Definition parent_ok (s : fs) : bool :=
    match dir with None => true | Some d => is_dir d s end.

  Inductive wstat := WDone | WFailed | WDied.

  (* for c in chunks: f.write(c) *)
  Fixpoint write_all (chunks : list bytes) (s : fs) (tr : list event) : wstat * fs * list event :=
    match chunks with
    | [] => (WDone, s, tr)
    | c :: cs =>
        match e (length tr) with
        | Ok => write_all cs (append_file tmp c s) (mkev SWrite tmp E0 (length c) ROk :: tr)
        | Fail n => (WFailed, append_file tmp (firstn n c) s,
                     mkev SWrite tmp E0 (length (firstn n c)) RFail :: tr)
        | Die n => (WDied, append_file tmp (firstn n c) s,
                    mkev SWrite tmp E0 (length (firstn n c)) RDie :: tr)
        end
    end.

  (* finally: if os.path.exists(temp_file): os.remove(temp_file);
     [out] is what save does when the clean-up raises nothing *)
  Definition cleanup (out : outcome) (s : fs) (tr : list event) : result :=
    match e (length tr) with
    | Die _ => mkres Died s (mkev SExists tmp E0 0 RDie :: tr)
    | Fail _ => mkres out s (mkev SExists tmp E0 0 RFalse :: tr)
    | Ok =>
        if mem tmp s then
          let tr1 := mkev SExists tmp E0 0 RTrue :: tr in
          match e (length tr1) with
          | Die _ => mkres Died s (mkev SRemove tmp E0 0 RDie :: tr1)
          | Fail _ => mkres (Raised SRemove) s (mkev SRemove tmp E0 0 RFail :: tr1)
          | Ok => mkres out (del_file tmp s) (mkev SRemove tmp E0 0 ROk :: tr1)
          end
        else mkres out s (mkev SExists tmp E0 0 RFalse :: tr)
    end.

  (* try: os.replace(temp_file, fname) except OSError: return False finally: ... ; return True *)
  Definition save_tail (s : fs) (tr : list event) : result :=
    match e (length tr) with
    | Die _ => mkres Died s (mkev SReplace tmp dst 0 RDie :: tr)
    | Fail _ => cleanup (Returned false) s (mkev SReplace tmp dst 0 RFail :: tr)
    | Ok =>
        match lookup tmp s with
        | Some b => cleanup (Returned true) (set_file dst b (del_file tmp s))
                            (mkev SReplace tmp dst 0 ROk :: tr)
        | None => cleanup (Returned false) s (mkev SReplace tmp dst 0 RFail :: tr)
        end
    end.

  (* try: with open(temp_file, "wb") as f: <writes> except OSError: return False *)
  Definition save_from_open (chunks : list bytes) (s : fs) (tr : list event) : result :=
    match e (length tr) with
    | Die _ => mkres Died s (mkev SOpen tmp E0 0 RDie :: tr)
    | Fail _ => mkres (Returned false) s (mkev SOpen tmp E0 0 RFail :: tr)
    | Ok =>
        if parent_ok s then
          let '(w, s2, tr2) := write_all chunks (set_file tmp [] s) (mkev SOpen tmp E0 0 ROk :: tr) in
          match w with
          | WDied => mkres Died s2 tr2
          | _ =>
              (* leaving the with block closes the file, also after a failed write *)
              match e (length tr2) with
              | Die _ => mkres Died s2 (mkev SClose tmp E0 0 RDie :: tr2)
              | Fail _ => mkres (Returned false) s2 (mkev SClose tmp E0 0 RFail :: tr2)
              | Ok =>
                  let tr3 := mkev SClose tmp E0 0 ROk :: tr2 in
                  match w with
                  | WDone => save_tail s2 tr3
                  | _ => mkres (Returned false) s2 tr3     (* the temp file stays behind *)
                  end
              end
          end
        else mkres (Returned false) s (mkev SOpen tmp E0 0 RFail :: tr)
    end.

  Definition save (chunks : list bytes) (s : fs) : result :=
    match dir with
    | None => save_from_open chunks s []
    | Some d =>
        match e 0 with
        | Die _ => mkres Died s [mkev SMakedirs d E0 0 RDie]
        | Fail _ => mkres (Raised SMakedirs) s [mkev SMakedirs d E0 0 RFail]
        | Ok => save_from_open chunks (makedirs d s) [mkev SMakedirs d E0 0 ROk]
        end
    end.
End Save.

(* utils.save as called: paths derived from [fname] and the pid *)
Definition save_py (e : env) (fname pid : string) (chunks : list bytes) (s : fs) : result :=
  save e (dirname_opt fname) fname (tmp_name fname pid) chunks s.

(* ------------------------------------------------------------------ *)
(* facts about a trace *)
Definition res_failed (r : res) : bool := match r with RFail => true | _ => false end.
Definition syscall_eqb (a b : syscall) : bool :=
  match a, b with
  | SMakedirs, SMakedirs | SOpen, SOpen | SWrite, SWrite | SClose, SClose
  | SReplace, SReplace | SExists, SExists | SRemove, SRemove => true
  | _, _ => false
  end.
(* some call raised OSError *)
Definition failed (tr : list event) : bool := existsb (fun ev => res_failed (ev_res ev)) tr.
(* call [sc] raised OSError *)
Definition failed_sc (sc : syscall) (tr : list event) : bool :=
  existsb (fun ev => res_failed (ev_res ev) && syscall_eqb sc (ev_sc ev)) tr.
(* an OSError in the temp-file-then-rename protocol proper *)
Definition failed_io (tr : list event) : bool :=
  failed_sc SOpen tr || failed_sc SWrite tr || failed_sc SClose tr || failed_sc SReplace tr.

Definition is_die (d : decision) : bool := match d with Die _ => true | _ => false end.
Definition is_ok (d : decision) : bool := match d with Ok => true | _ => false end.

(* ------------------------------------------------------------------ *)
(* utils.load + BaseLearner.load:
     with suppress(FileNotFoundError, EOFError):
         data = load(fname, compress); self._set_data(data)
   gzip / pickle decoding is foreign: a Section variable.  *)
Section Load.
  Variable D : Type.              (* what a file decodes to *)
  Variable L : Type.              (* learner state *)
  Inductive decoded := DecOk (d : D) | DecEOF | DecErr.
  Variable decode : bytes -> decoded.
  Variable set_data : L -> D -> L.

  Inductive load_res := LoadOk (l : L) | LoadRaised.

  Definition load (s : fs) (fname : path) (l : L) : load_res :=
    match lookup fname s with
    | None => LoadOk l                       (* FileNotFoundError, suppressed *)
    | Some b =>
        match decode b with
        | DecOk d => LoadOk (set_data l d)
        | DecEOF => LoadOk l                 (* EOFError, suppressed *)
        | DecErr => LoadRaised               (* anything else propagates *)
        end
    end.
End Load.
