(* Vocabulary used by the generated file gen/Prims.v (the traced kernels of
   triangulation.py, learnerND.py, learner1D.py, learner2D.py) -- definitions
   only.  Comparisons of the traced code become boolean tests on reals; a
   function that may return +inf or raise has result type [res]. *)
From Coq Require Import Reals.
Local Open Scope R_scope.

Definition Rltb (a b : R) : bool := if Rlt_dec a b then true else false.
Definition Rleb (a b : R) : bool := if Rle_dec a b then true else false.
Definition Reqb (a b : R) : bool := if Req_EM_T a b then true else false.

(* value | +infinity (numpy.inf) | an exception raised by the traced code *)
Inductive res : Type := Val (r : R) | PInf | Err.

(* sign of a determinant as returned by numpy.linalg.slogdet *)
Definition sgnR (x : R) : R := if Rlt_dec 0 x then 1 else if Rlt_dec x 0 then -1 else 0.

(* the double 1e-8 (default eps of the point-in-simplex tests), exactly *)
Definition eps8 : R := 3022314549036573 / 302231454903657293676544.

(* the double nearest to 1 + 1e-8: what the float expression [1 + eps]
   evaluates to when eps is the default 1e-8 *)
Definition one_eps8 : R := 1125899918101623 / 1125899906842624.
