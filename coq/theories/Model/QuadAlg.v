(* Idealised quadrature rule of adaptive/learner/integrator_learner.py
   (_calc_coeffs / calc_igral / calc_err / the shift matrices), over the exact
   rationals.  Definitions only; lemmas are in Proofs/QuadProofs.v, the
   statements of property C08 in Props/C08.v.

   Numbers: [Qc], the canonical rationals ([=] is Leibniz equality, [ring] and
   [field] apply, everything computes by [vm_compute]).

   Normalisation.  The code works in the ORTHONORMAL Legendre basis
   B_k = sqrt(k + 1/2) P_k and computes  igral = (b - a) c_0 / sqrt 2,
   err = (b - a) * || c_old - c_new ||_2.  sqrt 2 is irrational, so the model
   uses the UNNORMALISED basis P_k: with ct_k = sqrt(k + 1/2) * c_k
       (b - a) c_0 / sqrt 2               = (b - a) ct_0
       ((b - a) || c_old - c_new ||_2)^2  = (b - a)^2 sum_k (ct_old_k - ct_new_k)^2 / (k + 1/2)
   (both identities are proved over R in Proofs/QuadReal.v), and
   V_inv(code) = D^-1 Vt^-1 with Vt_jk = P_k(x_j), D = diag sqrt(k + 1/2).

   A polynomial is the list of its coefficients, lowest degree first. *)
From Coq Require Import QArith Qcanon List Arith Bool.
Import ListNotations.
Local Open Scope Qc_scope.

Definition of_nat (n : nat) : Qc := Q2Qc (inject_Z (Z.of_nat n)).
Definition two : Qc := 1 + 1.

(* ------------------------------------------------------------------ *)
(* polynomials *)

Definition poly := list Qc.
Definition coef (p : poly) (k : nat) : Qc := nth k p 0.

Fixpoint peval (p : poly) (x : Qc) : Qc :=
  match p with
  | [] => 0
  | c :: p' => c + x * peval p' x
  end.

Fixpoint padd (p q : poly) : poly :=
  match p, q with
  | [], _ => q
  | _, [] => p
  | a :: p', b :: q' => (a + b) :: padd p' q'
  end.

Definition pscale (c : Qc) (p : poly) : poly := map (Qcmult c) p.
Definition pmulx (p : poly) : poly := 0 :: p.                          (* x * p(x) *)
Definition psub (p q : poly) : poly := padd p (pscale (- (1)) q).

(* (m + h t) * r(t) *)
Definition pmul_lin (m h : Qc) (r : poly) : poly := padd (pscale m r) (pmulx (pscale h r)).

(* p(m + h t) as a polynomial in t (Horner) *)
Fixpoint pshift (p : poly) (m h : Qc) : poly :=
  match p with
  | [] => []
  | c :: p' => padd [c] (pmul_lin m h (pshift p' m h))
  end.

(* formal derivative and the antiderivative that vanishes at 0 *)
Fixpoint pderiv_from (k : nat) (p : poly) : poly :=      (* p = [c_k; c_(k+1); ...] *)
  match p with
  | [] => []
  | c :: p' => (of_nat k * c) :: pderiv_from (S k) p'
  end.
Definition pderiv (p : poly) : poly := pderiv_from 1 (tl p).

Fixpoint pantider_from (k : nat) (p : poly) : poly :=    (* p = [c_k; c_(k+1); ...] *)
  match p with
  | [] => []
  | c :: p' => (c / of_nat (S k)) :: pantider_from (S k) p'
  end.
Definition pantider (p : poly) : poly := 0 :: pantider_from 0 p.

(* the exact integral of the polynomial p over [a, b] (power rule) *)
Definition pint (p : poly) (a b : Qc) : Qc := peval (pantider p) b - peval (pantider p) a.

(* ------------------------------------------------------------------ *)
(* Legendre polynomials, standard normalisation, by Bonnet's recursion
   k P_k = (2k - 1) x P_(k-1) - (k - 1) P_(k-2)   (integrator_coeffs.legendre) *)

Fixpoint leg_pair (k : nat) : poly * poly :=             (* (P_k, P_(k+1)) *)
  match k with
  | O => ([1], [0; 1])
  | S k' =>
      let (a, b) := leg_pair k' in                        (* a = P_k', b = P_(k'+1) *)
      (b, pscale (/ of_nat (S (S k')))
            (psub (pscale (of_nat (2 * k' + 3)) (pmulx b)) (pscale (of_nat (S k')) a)))
  end.
Definition leg (k : nat) : poly := fst (leg_pair k).

(* ------------------------------------------------------------------ *)
(* finite sums, vectors (functions nat -> Qc used below an explicit length),
   matrices *)

Fixpoint sum (n : nat) (f : nat -> Qc) : Qc :=
  match n with
  | O => 0
  | S k => sum k f + f k
  end.

Definition vec := nat -> Qc.
Definition mat := nat -> nat -> Qc.

Definition mv (n : nat) (M : mat) (v : vec) : vec := fun i => sum n (fun j => M i j * v j).
Definition mm (n : nat) (A B : mat) : mat := fun i k => sum n (fun j => A i j * B j k).
Definition delta (i j : nat) : Qc := if Nat.eqb i j then 1 else 0.

(* Vinv V = I on indices < n *)
Definition left_inverse (n : nat) (Vinv V : mat) : Prop :=
  forall i k, (i < n)%nat -> (k < n)%nat -> mm n Vinv V i k = delta i k.

(* the first n entries, then zeros: np.zeros(max(len ..)); c_diff[:len] = .. *)
Definition pad (n : nat) (c : vec) : vec := fun k => if Nat.ltb k n then c k else 0.

(* sum_{k<n} c_k P_k as a polynomial *)
Fixpoint lincomb (n : nat) (c : vec) : poly :=
  match n with
  | O => []
  | S k => padd (lincomb k c) (pscale (c k) (leg k))
  end.

(* ------------------------------------------------------------------ *)
(* the rule *)

(* calc_V (unnormalised): V_jk = P_k(x_j) *)
Definition Vmat (xi : vec) : mat := fun j k => peval (leg k) (xi j).

(* _Interval.points: (a + b)/2 + (b - a) xi_j / 2 *)
Definition node_ab (a b : Qc) (xi : vec) : vec := fun j => (a + b) / two + (b - a) * xi j / two.

(* _calc_coeffs on finite values: c = V_inv @ fx *)
Definition coeffs (n : nat) (Vinv : mat) (fx : vec) : vec := mv n Vinv fx.

(* calc_igral: (b - a) c_0 / sqrt 2, in the unnormalised coefficients *)
Definition calc_igral (a b : Qc) (c : vec) : Qc := (b - a) * c 0%nat.

(* calc_err squared: ((b - a) || pad c_old - pad c_new ||_2)^2; n >= both lengths *)
Definition err_sq (a b : Qc) (n : nat) (c_old c_new : vec) : Qc :=
  (b - a) * (b - a) * sum n (fun k => (c_old k - c_new k) * (c_old k - c_new k) / (of_nat k + / two)).

(* the shift matrices of the idealised rule, as integrator_coeffs computes them:
   T = V_inv @ calc_V((xi + s) / 2),  s = -1 (left half) or +1 (right half) *)
Definition Tshift (n : nat) (Vinv : mat) (xi : vec) (s : Qc) : mat :=
  mm n Vinv (Vmat (fun j => (xi j + s) / two)).

(* c_old of a child: T[:, :np] @ c_parent *)
Definition shifted (n np : nat) (T : mat) (c_parent : vec) : vec := mv n T (pad np c_parent).

(* IntegratorLearner.done() for a single estimate, squared where sqrt 2 would
   enter:  err == 0  or  err < |igral| tol   (tol >= 0) *)
Definition done_sq (esq igral tol : Qc) : Prop :=
  esq = 0 \/ esq < (igral * tol) * (igral * tol).

(* ------------------------------------------------------------------ *)
(* executable checks used for the finite facts about P_0 .. P_32 *)

Definition Qc_eqb (x y : Qc) : bool := Qeq_bool x y.

Definition leg_shape_check (k : nat) : bool :=
  Nat.eqb (length (leg k)) (S k) && negb (Qc_eqb (coef (leg k) k) 0).

Definition leg_int_check (k : nat) : bool :=
  Qc_eqb (pint (leg k) (- (1)) 1) (if Nat.eqb k 0 then two else 0).

Definition NMAX : nat := 33.
