(* Executable model of the sample bookkeeping of
   adaptive/learner/average_learner1D.py (AverageLearner1D) that property C16
   talks about: per abscissa the samples (seed -> y), the running mean
   ([data]), [_number_samples], membership in [_undersampled_points] and
   [error] (Student-t half-width; [tppf df] stands for
   scipy.stats.t.ppf(1 - alpha, df), a recorded oracle).  The interval-loss
   machinery inherited from Learner1D, [_distances] and [rescaled_error] are
   not modelled; they only steer the choice "more samples at x" / "new point"
   once no abscissa is undersampled, which is taken from the implementation
   (the [hint] of [Ask]) and merely validated.  No proofs here.

   One point of the learner = one record [pt]; the state is the list of
   points sorted by abscissa (SortedDict order), so that "left/right
   neighbour" is list adjacency.

   [dedup] distinguishes the code as it is (false) from the code with the
   repair of finding F21 (true): tell_many_at_point ignores seeds already
   known at x, as tell does. *)
From AV Require Import Base.Prelude Model.AvgNum.
Set Implicit Arguments.

Section Avg1D.
  Variable N : NumOps.
  Notation num := (num N).
  Variable tppf : nat -> num.

  Record cfg := mkcfg {
    lo : num; hi : num;               (* bounds *)
    min_samples : nat;
    neighbor_sampling : num;
    dedup : bool
  }.

  Record pt := mkpt {
    px : num;
    samples : list (nat * num);       (* _data_samples[x], insertion order *)
    pmean : num;                      (* data[x] *)
    pcount : nat;                     (* _number_samples[x] *)
    perr : num;                       (* error[x] *)
    under : bool                      (* x in _undersampled_points *)
  }.
  Definition st := list pt.
  Definition init : st := [].

  Definition suml (l : list num) : num := fold_left (n_add N) l (n_zero N).
  Definition seeds (p : pt) : list nat := map fst (samples p).
  Definition ys (p : pt) : list num := map snd (samples p).

  (* _calc_error_in_mean(ys, y_avg, n) *)
  Definition calc_error (vals : list num) (avg : num) (n : nat) : num :=
    let variance_in_mean :=
      n_div N (suml (map (fun y => n_sq N (n_sub N y avg)) vals)) (n_of_nat N (n - 1)) in
    n_mul N (tppf (n - 1)) (n_sqrt N (n_div N variance_in_mean (n_of_nat N n))).

  Definition in_bounds (c : cfg) (x : num) : bool := n_leb N (lo c) x && n_leb N x (hi c).

  Fixpoint find_pt (x : num) (s : st) : option pt :=
    match s with
    | [] => None
    | p :: s' => if n_eqb N x (px p) then Some p else find_pt x s'
    end.

  Fixpoint insert_pt (p : pt) (s : st) : st :=
    match s with
    | [] => [p]
    | q :: s' => if n_ltb N (px p) (px q) then p :: s else q :: insert_pt p s'
    end.

  (* apply [f left p right] to the first point with abscissa [x] *)
  Fixpoint update_pt (x : num) (f : option pt -> pt -> option pt -> pt) (prev : option pt) (s : st) : st :=
    match s with
    | [] => []
    | p :: s' => if n_eqb N x (px p) then f prev p (hd_error s') :: s'
                 else p :: update_pt x f (Some p) s'
    end.

  (* ---- tell ---- *)
  (* point_type "new" *)
  Definition pt_new (x : num) (seed : nat) (y : num) : pt :=
    mkpt x [(seed, y)] y 1 (n_inf N) true.

  Definition nneighbor (l r : option pt) : num :=
    match l, r with
    | Some a, Some b => n_div N (n_of_nat N (pcount a + pcount b)) (n_of_nat N 2)
    | Some a, None => n_of_nat N (pcount a)
    | None, Some b => n_of_nat N (pcount b)
    | None, None => n_of_nat N 0
    end.

  (* point_type "resampled" (the seed test of [tell] included) *)
  Definition pt_resample (c : cfg) (seed : nat) (y : num) (l : option pt) (p : pt) (r : option pt) : pt :=
    if nat_mem seed (seeds p) then p
    else
      let n0 := length (samples p) in
      let avg := n_add N (n_div N (n_mul N (pmean p) (n_of_nat N n0)) (n_of_nat N (n0 + 1)))
                         (n_div N y (n_of_nat N (n0 + 1))) in
      let smp := samples p ++ [(seed, y)] in
      let n := S (pcount p) in
      let und :=
        if under p && (min_samples c <=? n)
        then negb (n_ltb N (n_mul N (neighbor_sampling c) (nneighbor l r)) (n_of_nat N n))
        else under p in
      mkpt (px p) smp avg n (calc_error (map snd smp) avg n) und.

  Definition tell (c : cfg) (s : st) (seed : nat) (x y : num) : st :=
    match find_pt x s with
    | None => insert_pt (pt_new x seed y) s
    | Some _ => update_pt x (pt_resample c seed y) None s
    end.

  (* ---- tell_many_at_point ---- *)
  (* dict.update: overwrite in place, append new keys *)
  Fixpoint dict_set (k : nat) (v : num) (d : list (nat * num)) : list (nat * num) :=
    match d with
    | [] => [(k, v)]
    | (k', v') :: d' => if k =? k' then (k, v) :: d' else (k', v') :: dict_set k v d'
    end.
  Definition dict_update (d upd : list (nat * num)) : list (nat * num) :=
    fold_left (fun d kv => dict_set (fst kv) (snd kv) d) upd d.

  (* the part of tell_many_at_point after a possible first "new" sample;
     [m] is np.mean(ys) of the remaining samples as computed by numpy *)
  Definition pt_batch (c : cfg) (rest : list (nat * num)) (m : num) (p : pt) : pt :=
    match rest with
    | [] => p
    | _ =>
      let smp := dict_update (samples p) rest in
      let k := length rest in
      let n := k + pcount p in
      let avg := n_div N (n_add N (n_mul N m (n_of_nat N k)) (n_mul N (pmean p) (n_of_nat N (pcount p))))
                         (n_of_nat N n) in
      let und := if min_samples c <? n then false else under p in
      mkpt (px p) smp avg n (calc_error (map snd smp) avg n) und
    end.

  (* which of the offered samples the batch path processes at an existing point *)
  Definition batch_rest (c : cfg) (p : pt) (l : list (nat * num)) : list (nat * num) :=
    if dedup c then filter (fun sy => negb (nat_mem (fst sy) (seeds p))) l else l.

  Inductive out :=
  | Done
  | Asked (pts : list (nat * num))
  | Err.                               (* ValueError / StopIteration / ZeroDivisionError *)

  Definition tell_many_at (c : cfg) (s : st) (x : num) (l : list (nat * num)) (m : num) : st * out :=
    if negb (in_bounds c x) then (s, Err)
    else match find_pt x s with
         | None =>
             match l with
             | [] => (s, Err)
             | (seed, y) :: rest =>
                 (update_pt x (fun _ p _ => pt_batch c rest m p) None (insert_pt (pt_new x seed y) s), Done)
             end
         | Some p =>
             (update_pt x (fun _ q _ => pt_batch c (batch_rest c q l) m q) None s, Done)
         end.

  (* ---- tell_many ---- *)
  Fixpoint group_add (x : num) (seed : nat) (y : num) (g : list (num * list (nat * num)))
    : list (num * list (nat * num)) :=
    match g with
    | [] => [(x, [(seed, y)])]
    | (x', m) :: g' => if n_eqb N x x' then (x', dict_set seed y m) :: g'
                       else (x', m) :: group_add x seed y g'
    end.

  Fixpoint tell_groups (c : cfg) (s : st) (g : list (num * list (nat * num))) (hints : list num) : st :=
    match g with
    | [] => s
    | (x, [(seed, y)]) :: g' => tell_groups c (tell c s seed x y) g' hints
    | (x, m) :: g' =>
        match hints with
        | [] => s                                   (* malformed case: a hint is missing *)
        | h :: hints' => tell_groups c (fst (tell_many_at c s x m h)) g' hints'
        end
    end.

  Definition tell_many (c : cfg) (s : st) (l : list (nat * num * num)) (hints : list num) : st * out :=
    if forallb (fun e => in_bounds c (snd (fst e))) l
    then (tell_groups c s (fold_left (fun g e => group_add (snd (fst e)) (fst (fst e)) (snd e) g) l []) hints, Done)
    else (s, Err).

  (* ---- ask ---- *)
  Definition more_samples (p : pt) (n : nat) : list (nat * num) :=
    map (fun k => (k + pcount p, px p)) (seq 0 n).

  (* [hint] = the points the implementation returned.  While some point is
     undersampled the request must go to an undersampled point (which one is
     Python set order: taken from the hint, validated); otherwise the
     implementation's decision is accepted: an existing abscissa is resampled
     with the next seeds, a new abscissa gets seeds 0..n-1. *)
  Definition ask (s : st) (n : nat) (hint : list (nat * num)) : out :=
    match n, hint with
    | 0, _ => Err
    | _, [] => Err
    | _, (_, x) :: _ =>
        if existsb under s then
          match find_pt x s with
          | Some p => if under p then Asked (more_samples p n) else Err
          | None => Err
          end
        else
          match find_pt x s with
          | Some p => Asked (more_samples p n)
          | None => Asked (map (fun k => (k, x)) (seq 0 n))
          end
    end.

  Inductive op :=
  | Ask (n : nat) (hint : list (nat * num))
  | Tell (seed : nat) (x y : num)
  | TellManyAt (x : num) (l : list (nat * num)) (m : num)
  | TellMany (l : list (nat * num * num)) (hints : list num).

  Definition step (c : cfg) (s : st) (o : op) : st * out :=
    match o with
    | Ask n hint => (s, ask s n hint)
    | Tell seed x y => (tell c s seed x y, Done)
    | TellManyAt x l m => tell_many_at c s x l m
    | TellMany l hints => tell_many c s l hints
    end.

  Definition run (c : cfg) (s : st) (h : list op) : st :=
    fold_left (fun s o => fst (step c s o)) h s.
  Definition reach (c : cfg) (h : list op) : st := run c init h.

  (* ---- quantifier domain of the 1D part of C16 ---- *)
  Definition groups (l : list (nat * num * num)) : list (num * list (nat * num)) :=
    fold_left (fun g e => group_add (snd (fst e)) (fst (fst e)) (snd e) g) l [].

  (* the tell / tell_many_at_point calls tell_many makes *)
  Fixpoint group_ops (g : list (num * list (nat * num))) (hints : list num) : list op :=
    match g with
    | [] => []
    | (x, [(seed, y)]) :: g' => Tell seed x y :: group_ops g' hints
    | (x, m) :: g' =>
        match hints with
        | [] => []
        | h :: hints' => TellManyAt x m h :: group_ops g' hints'
        end
    end.

  Fixpoint nodupb (l : list nat) : bool :=
    match l with [] => true | a :: l' => negb (nat_mem a l') && nodupb l' end.

  Definition fresh_at (s : st) (x : num) (l : list (nat * num)) : bool :=
    match find_pt x s with
    | Some p => forallb (fun sy => negb (nat_mem (fst sy) (seeds p))) l
    | None => true
    end.

  (* abscissae inside the bounds; a batch is a dict (distinct seeds), not
     empty; with the code as it is ([dedup] = false) the batch path is only
     covered for seeds not yet known at x (finding F21 otherwise) *)
  Definition legal_flat_op (c : cfg) (s : st) (o : op) : bool :=
    match o with
    | Ask n _ => 1 <=? n
    | Tell _ x _ => in_bounds c x
    | TellManyAt x l _ =>
        in_bounds c x && negb (match l with [] => true | _ => false end) &&
        nodupb (map fst l) && (dedup c || fresh_at s x l)
    | TellMany _ _ => false
    end.

  Fixpoint legal_flat (c : cfg) (s : st) (h : list op) : bool :=
    match h with
    | [] => true
    | o :: h' => legal_flat_op c s o && legal_flat c (fst (step c s o)) h'
    end.

  Definition legal_op (c : cfg) (s : st) (o : op) : bool :=
    match o with
    | TellMany l hints =>
        forallb (fun e => in_bounds c (snd (fst e))) l && legal_flat c s (group_ops (groups l) hints)
    | _ => legal_flat_op c s o
    end.

  Fixpoint legal (c : cfg) (s : st) (h : list op) : bool :=
    match h with
    | [] => true
    | o :: h' => legal_op c s o && legal c (fst (step c s o)) h'
    end.

  Definition nsamples (s : st) : nat := fold_right (fun p a => pcount p + a) 0 s.

  (* what C16 compares between batched and incremental telling *)
  Definition core (p : pt) : num * list (nat * num) * num * nat * num :=
    (px p, samples p, pmean p, pcount p, perr p).
End Avg1D.

Arguments Done {N}. Arguments Err {N}. Arguments Asked {N}.
