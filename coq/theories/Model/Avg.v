(* Executable model of adaptive/learner/average_learner.py (AverageLearner),
   written once over an abstract number structure [N : NumOps]; run with
   [FloatOps] (bit-exact) and reasoned about generically / over R.
   Seeds are naturals.  No proofs here.

   data            dict seed -> value, insertion order   (assoc list, appended)
   pending_points  set of seeds                           (sorted list)
   sum_f, sum_f_sq, npoints                               running moments

   [guard] distinguishes the code as it is (false) from the code with the
   one-line repair of finding F11 (true): loss() returns inf when nothing has
   been evaluated, instead of dividing by npoints = 0 in [mean]. *)
From AV Require Import Base.Prelude Model.AvgNum.
Set Implicit Arguments.

(* the implementation's choice among the candidate seeds in ask's fallback
   branch is the iteration order of a Python set (hash order, not modelled):
   [reorder hint l] is a permutation of [l] that starts with the members of
   [hint]; with the observed answer as hint the model is a trace acceptor,
   and the theorems hold for every hint. *)
Definition reorder (hint l : list nat) : list nat :=
  let p := nodup Nat.eq_dec (filter (fun x => nat_mem x l) hint) in
  p ++ filter (fun x => negb (nat_mem x p)) l.

Section Avg.
  Variable N : NumOps.
  Notation num := (num N).

  Record cfg := mkcfg {
    atol : num;
    rtol : num;
    min_npoints_arg : nat;        (* constructor argument; the code stores max(arg, 2) *)
    guard : bool
  }.
  Definition min_npoints (c : cfg) : nat := Nat.max (min_npoints_arg c) 2.

  Record st := mk {
    data : list (nat * num);
    pend : list nat;
    sum_f : num;
    sum_f_sq : num;
    npoints : nat
  }.

  Definition init : st := mk [] [] (n_zero N) (n_zero N) 0.

  Inductive op :=
  | Ask (n : nat) (commit : bool) (hint : list nat)
  | Tell (seed : nat) (v : num)
  | TellPending (seed : nat)
  | RemoveUnfinished.

  Inductive out :=
  | Done
  | Asked (pts : list nat) (imp : num)     (* points, the common entry of loss_improvements *)
  | Err.                                    (* ZeroDivisionError *)

  Definition keys (s : st) : list nat := map fst (data s).
  Definition known (s : st) (seed : nat) : bool := nat_mem seed (keys s).
  Definition n_requested (s : st) : nat := npoints s + length (pend s).

  (* ---- tell / tell_pending / remove_unfinished ---- *)
  Definition tell (s : st) (seed : nat) (v : num) : st :=
    if known s seed then s
    else mk (data s ++ [(seed, v)]) (nat_remove seed (pend s))
            (n_add N (sum_f s) v) (n_add N (sum_f_sq s) (n_sq N v)) (S (npoints s)).

  Definition tell_pending (s : st) (seed : nat) : st :=
    mk (data s) (nat_insert seed (pend s)) (sum_f s) (sum_f_sq s) (npoints s).

  Definition remove_unfinished (s : st) : st :=
    mk (data s) [] (sum_f s) (sum_f_sq s) (npoints s).

  (* ---- mean / std / loss ---- *)
  Definition mean_val (s : st) : num := n_div N (sum_f s) (n_of_nat N (npoints s)).
  (* None = ZeroDivisionError *)
  Definition mean (s : st) : option num :=
    if npoints s =? 0 then None else Some (mean_val s).

  Definition std_numerator (s : st) : num :=
    n_sub N (sum_f_sq s) (n_mul N (n_of_nat N (npoints s)) (n_sq N (mean_val s))).

  Definition std (c : cfg) (s : st) : num :=
    let n := npoints s in
    if n <? min_npoints c then n_inf N
    else
      let numerator := std_numerator s in
      if n_ltb N numerator (n_zero N) then n_zero N
      else n_sqrt N (n_div N numerator (n_of_nat N (n - 1))).

  (* loss(real, n=n) *)
  Definition loss_n (c : cfg) (s : st) (n : nat) : option num :=
    if (n <? min_npoints c) || (guard c && (npoints s =? 0)) then Some (n_inf N)
    else
      let standard_error := n_div N (std c s) (n_sqrt N (n_of_nat N n)) in
      let aloss := n_div N standard_error (atol c) in
      let rloss := n_div N standard_error (rtol c) in
      match mean s with
      | None => None
      | Some m =>
          let rloss := if negb (n_eqb N m (n_zero N)) then n_div N rloss (n_abs N m) else rloss in
          Some (pymax N aloss rloss)
      end.

  Definition loss (c : cfg) (s : st) (real : bool) : option num :=
    loss_n c s (if real then npoints s else n_requested s).

  Definition loss_improvement (c : cfg) (s : st) (n : nat) : option num :=
    match loss c s true with
    | None => None
    | Some l =>
        if n_finite N l then
          match loss_n c s (npoints s + n) with
          | Some l2 => Some (n_sub N l l2)
          | None => None
          end
        else Some (n_inf N)
    end.

  (* ---- ask ---- *)
  Definition taken (s : st) (p : nat) : bool := known s p || nat_mem p (pend s).

  Definition candidates (s : st) (n : nat) : list nat :=
    filter (fun p => negb (taken s p)) (seq 0 (n_requested s + n)).

  Definition ask_points (s : st) (n : nat) (hint : list nat) : list nat :=
    let points := seq (n_requested s) n in
    if existsb (taken s) points
    then firstn n (reorder hint (candidates s n))
    else points.

  Definition ask (c : cfg) (s : st) (n : nat) (commit : bool) (hint : list nat) : st * out :=
    let points := ask_points s n hint in
    match n, loss_improvement c s n with
    | 0, _ => (s, Asked [] (n_of_nat N 0))     (* ask(0) returns ([], []) (repaired in /repo; it raised ZeroDivisionError before) *)
    | _, None => (s, Err)
    | _, Some li =>
        ((if commit then fold_left tell_pending points s else s),
         Asked points (n_div N li (n_of_nat N n)))
    end.

  Definition step (c : cfg) (s : st) (o : op) : st * out :=
    match o with
    | Ask n commit hint => ask c s n commit hint
    | Tell seed v => (tell s seed v, Done)
    | TellPending seed => (tell_pending s seed, Done)
    | RemoveUnfinished => (remove_unfinished s, Done)
    end.

  Definition run (c : cfg) (s : st) (h : list op) : st :=
    fold_left (fun s o => fst (step c s o)) h s.
  Definition reach (c : cfg) (h : list op) : st := run c init h.

  (* ---- specification-side vocabulary (used by the theorems) ---- *)
  Definition values (s : st) : list num := map snd (data s).
  (* left-to-right sum, the order in which the code accumulates *)
  Definition suml (l : list num) : num := fold_left (n_add N) l (n_zero N).

  Fixpoint lookup (seed : nat) (d : list (nat * num)) : option num :=
    match d with
    | [] => None
    | (k, v) :: d' => if seed =? k then Some v else lookup seed d'
    end.

  (* the value of the first Tell of [seed] in a history *)
  Fixpoint first_told (h : list op) (seed : nat) : option num :=
    match h with
    | [] => None
    | Tell k v :: h' => if seed =? k then Some v else first_told h' seed
    | _ :: h' => first_told h' seed
    end.
End Avg.

Arguments Done {N}. Arguments Err {N}. Arguments RemoveUnfinished {N}.
Arguments TellPending {N}. Arguments Ask {N}.
