(* Property C14 -- Saving is atomic: a crash never leaves a damaged file;
   loading tolerates absence.  Only statements here, each closed by [exact]
   of a lemma from Proofs/SaveFSProofs.v, and [Print Assumptions].

   Model: Model/SaveFS.v.  [e : env] decides for every file-system call of the
   run Ok / Fail (OSError) / Die (process death) and, for a write, how many
   bytes reach the file first; all theorems are for every [e], every initial
   file system [s0] (previous file present or not, stale temp file or not),
   every content [concat chunks], with or without a directory part. *)
From Coq Require Import String NArith.
From AV Require Import Base.Prelude Model.SaveFS Proofs.SaveFSProofs.

(* However the run goes (any fault plan, any crash point -- death at call k
   leaves exactly the state after the first k calls), the destination is what
   it was (absent if it was absent) or exactly the new content, and no file
   other than the destination and the temp file changes. *)
Theorem C14_atomic : forall (e : env) dir dst tmp,
  tmp <> dst -> forall chunks s0,
  let r := save e dir dst tmp chunks s0 in
  (lookup dst (r_fs r) = lookup dst s0 \/ lookup dst (r_fs r) = Some (concat chunks)) /\
  (forall p, p <> dst -> p <> tmp -> lookup p (r_fs r) = lookup p s0).
Proof. exact atomic. Qed.

(* the same for the paths utils.save derives itself (fname.<pid> <> fname) *)
Theorem C14_atomic_py : forall (e : env) fname pid chunks s0,
  let r := save_py e fname pid chunks s0 in
  (lookup fname (r_fs r) = lookup fname s0 \/ lookup fname (r_fs r) = Some (concat chunks)) /\
  (forall p, p <> fname -> p <> tmp_name fname pid -> lookup p (r_fs r) = lookup p s0).
Proof. exact atomic_py. Qed.

(* explicitly as "after any execution prefix" *)
Theorem C14_atomic_prefix : forall k (e : env) dir dst tmp chunks s0,
  tmp <> dst ->
  let r := save (crash_at k e) dir dst tmp chunks s0 in
  lookup dst (r_fs r) = lookup dst s0 \/ lookup dst (r_fs r) = Some (concat chunks).
Proof. exact atomic_prefix. Qed.

(* If any call raised OSError, the destination is untouched and save does
   not return True; and if the process does not die, the error was in
   open/write/close/replace and the clean-up remove did not fail as well,
   save returns False.  (A makedirs error, and a remove error after a failed
   replace, propagate as exceptions: see C14_outcome_meaning.) *)
Theorem C14_error_reports_and_preserves : forall (e : env) dir dst tmp,
  tmp <> dst -> forall chunks s0,
  let r := save e dir dst tmp chunks s0 in
  failed (r_trace r) = true ->
  lookup dst (r_fs r) = lookup dst s0 /\
  r_out r <> Returned true /\
  ((forall i, is_die (e i) = false) -> failed_io (r_trace r) = true ->
   failed_sc SRemove (r_trace r) = false -> r_out r = Returned false).
Proof. exact error_reports_and_preserves. Qed.

(* What the caller learns: True = new content in place, no temp file, nothing
   failed; False = destination untouched and an OSError in
   open/write/close/replace; an exception = destination untouched and it came
   from makedirs or from the clean-up remove; death needs a Die decision. *)
Theorem C14_outcome_meaning : forall (e : env) dir dst tmp,
  tmp <> dst -> forall chunks s0,
  let r := save e dir dst tmp chunks s0 in
  match r_out r with
  | Returned true => lookup dst (r_fs r) = Some (concat chunks) /\ lookup tmp (r_fs r) = None /\
                     failed (r_trace r) = false
  | Returned false => lookup dst (r_fs r) = lookup dst s0 /\ failed_io (r_trace r) = true
  | Raised sc => lookup dst (r_fs r) = lookup dst s0 /\ (sc = SMakedirs \/ sc = SRemove) /\
                 failed_sc sc (r_trace r) = true
  | Died => exists i n, e i = Die n
  end.
Proof. exact outcome_meaning. Qed.

Theorem C14_success : forall (e : env) dir dst tmp chunks s0,
  tmp <> dst -> (forall i, e i = Ok) ->
  let r := save e dir dst tmp chunks s0 in
  r_out r = Returned true /\ lookup dst (r_fs r) = Some (concat chunks) /\
  lookup tmp (r_fs r) = None /\
  (forall p, p <> dst -> p <> tmp -> lookup p (r_fs r) = lookup p s0).
Proof. exact success. Qed.

(* Loading from a missing or empty file is the identity on the learner.
   [decode] (gzip + pickle) is foreign; the only thing used is that it signals
   end-of-file on empty input. *)
Theorem C14_load_absent_noop : forall (D L : Type) (decode : bytes -> decoded D)
    (set_data : L -> D -> L),
  decode [] = DecEOF D ->
  forall s fname (l : L),
  lookup fname s = None \/ lookup fname s = Some [] ->
  load decode set_data s fname l = LoadOk l.
Proof. exact load_absent_noop. Qed.

(* ... and after any execution of save the destination loads, giving what it
   gave before or the new data *)
Theorem C14_atomic_loadable : forall (D L : Type) (decode : bytes -> decoded D)
    (set_data : L -> D -> L) (e : env) dir dst tmp chunks s0 (l : L) d,
  tmp <> dst ->
  decode (concat chunks) = DecOk d ->
  let r := save e dir dst tmp chunks s0 in
  load decode set_data (r_fs r) dst l = load decode set_data s0 dst l \/
  load decode set_data (r_fs r) dst l = LoadOk (set_data l d).
Proof. exact atomic_loadable. Qed.

(* ------------------------------------------------------------------ *)
(* non-vacuity: concrete runs with a previous file, in a subdirectory *)
Local Open Scope string_scope.
Local Open Scope N_scope.
Definition ex_fs : fs := mkfs [("d/f"%string, [7; 7; 7]); ("other"%string, [1])] ["d"%string].
Definition ex_plan (l : list decision) : env := fun i => nth i l Ok.

Example C14_example :
  (* no fault *)
  (let r := save_py (ex_plan []) "d/f" "41" [[1; 2; 3; 4]] ex_fs in
   r_out r = Returned true /\ files (r_fs r) = [("d/f"%string, [1; 2; 3; 4]); ("other"%string, [1])] /\
   List.length (r_trace r) = 6%nat) /\
  (* the write fails after 2 bytes: False, old version, a partial temp file stays *)
  (let r := save_py (ex_plan [Ok; Ok; Fail 2]) "d/f" "41" [[1; 2; 3; 4]] ex_fs in
   r_out r = Returned false /\ lookup "d/f" (r_fs r) = Some [7; 7; 7] /\
   lookup "d/f.41" (r_fs r) = Some [1; 2] /\ failed_io (r_trace r) = true) /\
  (* replace fails and so does the clean-up: the OSError of remove propagates *)
  (let r := save_py (ex_plan [Ok; Ok; Ok; Ok; Fail 0; Ok; Fail 0]) "d/f" "41" [[1; 2; 3; 4]] ex_fs in
   r_out r = Raised SRemove /\ lookup "d/f" (r_fs r) = Some [7; 7; 7]) /\
  (* death right after the rename: the new version is complete *)
  (let r := save_py (ex_plan [Ok; Ok; Ok; Ok; Ok; Die 0]) "d/f" "41" [[1; 2; 3; 4]] ex_fs in
   r_out r = Died /\ lookup "d/f" (r_fs r) = Some [1; 2; 3; 4]) /\
  (* death half-way through the write: the old version is intact *)
  (let r := save_py (ex_plan [Ok; Ok; Die 3]) "d/f" "41" [[1; 2; 3; 4]] ex_fs in
   r_out r = Died /\ lookup "d/f" (r_fs r) = Some [7; 7; 7] /\ lookup "d/f.41" (r_fs r) = Some [1; 2; 3]) /\
  (* loading: missing and empty files *)
  (let dec := fun b : bytes => match b with [] => DecEOF N | x :: _ => DecOk x end in
   load dec (fun (_ : N) d => d) ex_fs "nope" 5 = LoadOk 5 /\
   load dec (fun (_ : N) d => d) (set_file "d/f" [] ex_fs) "d/f" 5 = LoadOk 5 /\
   load dec (fun (_ : N) d => d) ex_fs "d/f" 5 = LoadOk 7).
Proof. vm_compute. repeat split. Qed.

Print Assumptions C14_atomic.
Print Assumptions C14_atomic_py.
Print Assumptions C14_atomic_prefix.
Print Assumptions C14_error_reports_and_preserves.
Print Assumptions C14_outcome_meaning.
Print Assumptions C14_success.
Print Assumptions C14_load_absent_noop.
Print Assumptions C14_atomic_loadable.
