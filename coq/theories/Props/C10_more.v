(* Property C10, corollaries for Model/Avg.v (AverageLearner), written by
   another builder.  Kept apart from Props/C10.v so that a change of that
   model cannot break the C10 check; not part of the audited obligations. *)
From Coq Require Import ZArith.
From AV Require Import Base.Prelude Base.NatSet.
From AV Require Model.AvgNum Model.Avg.

Section C10_avg.
  Variable N : AvgNum.NumOps.

  (* a known seed is ignored, whatever the value *)
  Theorem C10_avg_retell_noop : forall (s : Avg.st N) seed v,
    Avg.known s seed = true -> Avg.tell s seed v = s.
  Proof. intros s seed v H. unfold Avg.tell. rewrite H. reflexivity. Qed.

  (* a newly told seed is recorded with its value, counted once, and not pending *)
  Theorem C10_avg_tell_new : forall (s : Avg.st N) seed v,
    Avg.known s seed = false ->
    Avg.data (Avg.tell s seed v) = Avg.data s ++ [(seed, v)] /\
    Avg.npoints (Avg.tell s seed v) = S (Avg.npoints s) /\
    ~ In seed (Avg.pend (Avg.tell s seed v)).
  Proof.
    intros s seed v H. unfold Avg.tell. rewrite H. cbn. repeat split.
    rewrite nat_remove_In. tauto.
  Qed.

  Theorem C10_avg_discard : forall (c : Avg.cfg N) (s : Avg.st N),
    Avg.pend (Avg.remove_unfinished s) = [] /\
    Avg.data (Avg.remove_unfinished s) = Avg.data s /\
    Avg.loss c (Avg.remove_unfinished s) false = Avg.loss c (Avg.remove_unfinished s) true.
  Proof.
    intros c s. repeat split. unfold Avg.loss, Avg.n_requested. cbn [Avg.pend Avg.remove_unfinished Avg.npoints length].
    rewrite Nat.add_0_r. reflexivity.
  Qed.
End C10_avg.

Print Assumptions C10_avg_retell_noop.
Print Assumptions C10_avg_tell_new.
Print Assumptions C10_avg_discard.
