(* Property C11 -- what a learner knows depends on the set of results, not on
   how they arrived.  Statements only; proofs in Proofs/OrderProofs.v and
   Proofs/OrderL1D.v.

   Full statement for Learner1D (NOT proved here; see C11_l1d_partial):

     C11_l1d_order_irrelevant : factor P = one -> FieldLaws ... ->
       all points distinct and in bounds, both end points known or pending ->
       Permutation l1 l2 ->
       fold_left tell1 l1 s = fold_left tell1 l2 s   (every component, incl. los / losc)
       /\ los (tell_many s l2 true) = los (fold_left tell1 l1 s)
       /\ losc (tell_many s l2 true) = losc (fold_left tell1 l1 s)   (exact in a field)

   What is proved: every data-level component (data, pending, neighbors,
   neighbors_combined, _bbox, _scale) is order independent, for any start
   state (any set of pending points); batch = incremental on data and pending.
   What is missing: the two loss tables los / losc (and with them loss() and
   ask()): needs the structural invariant "los = get_loss of every
   neighbouring pair at the current scale" (C01_structure_inv /
   C01_values_inv, not available in Proofs/L1DProofs.v) from which, for
   factor = 1, the state is a function of (data, pending).  On the real class
   this part is covered by the oracle of harness/avh/props/c11.py only. *)
From Coq Require Import Permutation ZArith QArith Qcanon.
From AV Require Import Base.Prelude Model.AvgSpec Model.Seq Proofs.SeqProofs Proofs.OrderProofs.
From AV Require Model.L1D Proofs.OrderL1D.
Local Open Scope nat_scope.

(* ---------------- SequenceLearner ---------------- *)
(* telling results for distinct indices in any order, or all in one tell_many,
   gives the same state (to-do set, pending set, data), from any start state *)
Theorem C11_seq_order_irrelevant : forall (V : Type) (s : Seq.st V) (l1 l2 : list (nat * V)),
  NoDup (map fst l1) -> Permutation l1 l2 ->
  run s (tells l1) = run s (tells l2) /\ run s (tells l1) = seq_tell_many s l2.
Proof. exact seq_order_irrelevant. Qed.

(* ---------------- averaging learner ---------------- *)
(* over every number structure with a commutative, associative addition *)
Theorem C11_avg_order_irrelevant : forall (num : Type) (add mul : num -> num -> num),
  AddLaws add ->
  forall (s : AvgSpec.st num) (l1 l2 : list (nat * num)),
  NoDup (map fst l1) -> Permutation l1 l2 ->
  AvgSpec.tell_many add mul s l1 = AvgSpec.tell_many add mul s l2.
Proof. exact avg_order_irrelevant. Qed.

(* closed instances: exact integers and exact rationals *)
Theorem C11_avg_order_irrelevant_Z : forall (s : AvgSpec.st Z) (l1 l2 : list (nat * Z)),
  NoDup (map fst l1) -> Permutation l1 l2 ->
  AvgSpec.tell_many Z.add Z.mul s l1 = AvgSpec.tell_many Z.add Z.mul s l2.
Proof. exact (avg_order_irrelevant Z Z.add Z.mul AddLaws_Z). Qed.

Theorem C11_avg_order_irrelevant_Qc : forall (s : AvgSpec.st Qc) (l1 l2 : list (nat * Qc)),
  NoDup (map fst l1) -> Permutation l1 l2 ->
  AvgSpec.tell_many Qcplus Qcmult s l1 = AvgSpec.tell_many Qcplus Qcmult s l2.
Proof. exact (avg_order_irrelevant Qc Qcplus Qcmult AddLaws_Qc). Qed.

(* a result for an already known seed is ignored (first value kept) *)
Theorem C11_avg_repeated_seed_ignored : forall (num : Type) (add mul : num -> num -> num)
  (s : AvgSpec.st num) (n : nat) (v w : num),
  AvgSpec.tell add mul (AvgSpec.tell add mul s n v) n w = AvgSpec.tell add mul s n v.
Proof. exact avg_second_tell_ignored. Qed.

(* npoints, sum_f, sum_f_sq (hence mean, std, loss) are functions of the data *)
Theorem C11_avg_state_function_of_data : forall (num : Type) (add mul : num -> num -> num) (zero : num),
  AddLaws add ->
  forall (l : list (nat * num)),
  let s := AvgSpec.tell_many add mul (AvgSpec.init zero) l in
  s = AvgSpec.canon add mul zero (AvgSpec.data s) (AvgSpec.pend s).
Proof.
  intros num add mul zero AL l.
  exact (avg_state_function_of_data num add mul zero AL (AvgSpec.init zero) l (is_canon_init num add mul zero)).
Qed.

(* ---------------- Learner1D: data-level components ---------------- *)
Section L1D.
  Import L1D OrderL1D.
  Variable num : Type.
  Variables (add sub mul div : num -> num -> num) (ltb eqb : num -> num -> bool).
  Variables (zero one inf neg_inf : num) (is_nan is_inf : num -> bool) (round12 : num -> num).
  Variable of_nat : nat -> num.
  Variable Lf : list (option num) -> list (option (Y num)) -> num.
  Variable P : params num.

  Notation tell1 := (OrderL1D.tell1 num sub mul div ltb eqb zero one inf neg_inf is_nan is_inf round12 Lf P).
  Notation tell_many := (@L1D.tell_many num sub mul div ltb eqb zero one inf neg_inf is_nan is_inf round12 Lf P).

  Theorem C11_l1d_partial : OrdLaws ltb eqb is_nan ->
    forall (s : st num) (l1 l2 : list (num * Y num)),
    Pairwise (@related num) l1 -> Permutation l1 l2 ->
    let s1 := fold_left tell1 l1 s in let s2 := fold_left tell1 l2 s in
    data s1 = data s2 /\ pend s1 = pend s2 /\ nb s1 = nb s2 /\ nbc s1 = nbc s2 /\
    bbx s1 = bbx s2 /\ bby s1 = bby s2 /\ sx s1 = sx s2 /\ sy s1 = sy s2.
  Proof.
    intros OL s l1 l2 HW HP.
    pose proof (l1d_data_level_order_irrelevant num sub mul div ltb eqb zero one inf neg_inf is_nan is_inf round12 Lf P OL s l1 l2 HW HP) as H.
    unfold proj in H. inversion H. repeat split; assumption.
  Qed.

  Theorem C11_l1d_batch_partial : OrdLaws ltb eqb is_nan ->
    forall (s : st num) (xys : list (num * Y num)) (force : bool),
    NoDup (map fst xys) -> (forall x, In x (map fst xys) -> dget eqb x (data s) = None) ->
    data (tell_many s xys force) = data (fold_left tell1 xys s) /\
    pend (tell_many s xys force) = pend (fold_left tell1 xys s).
  Proof. exact (l1d_batch_data_pend num sub mul div ltb eqb zero one inf neg_inf is_nan is_inf round12 Lf P). Qed.
End L1D.

(* closed instance: exact rationals, every loss function, every parameters *)
Theorem C11_l1d_partial_Qc : forall (Lf : list (option Qc) -> list (option (L1D.Y Qc)) -> Qc)
  (P : L1D.params Qc) (inf neg_inf : Qc) (round12 : Qc -> Qc)
  (s : L1D.st Qc) (l1 l2 : list (Qc * L1D.Y Qc)),
  Pairwise (@OrderL1D.related Qc) l1 -> Permutation l1 l2 ->
  let t := OrderL1D.tell1 Qc Qcminus Qcmult Qcdiv OrderL1D.Qc_ltb OrderL1D.Qc_eqb (Q2Qc 0) (Q2Qc 1) inf neg_inf
             (fun _ => false) (fun _ => false) round12 Lf P in
  let s1 := fold_left t l1 s in let s2 := fold_left t l2 s in
  L1D.data s1 = L1D.data s2 /\ L1D.pend s1 = L1D.pend s2 /\ L1D.nb s1 = L1D.nb s2 /\
  L1D.nbc s1 = L1D.nbc s2 /\ L1D.bbx s1 = L1D.bbx s2 /\ L1D.bby s1 = L1D.bby s2 /\
  L1D.sx s1 = L1D.sx s2 /\ L1D.sy s1 = L1D.sy s2.
Proof.
  intros Lf P inf neg_inf round12.
  exact (C11_l1d_partial Qc Qcminus Qcmult Qcdiv OrderL1D.Qc_ltb OrderL1D.Qc_eqb (Q2Qc 0) (Q2Qc 1) inf neg_inf (fun _ => false) (fun _ => false) round12 Lf P
           OrderL1D.OrdLaws_Qc).
Qed.

(* ---------------- non-vacuity ---------------- *)
Example C11_seq_example :
  let l1 := [(2, 20); (0, 7); (3, 9)] in let l2 := [(3, 9); (2, 20); (0, 7)] in
  NoDup (map fst l1) /\ Permutation l1 l2 /\
  run (fst (step (init nat 4) (Ask 3 true))) (tells l1) = run (fst (step (init nat 4) (Ask 3 true))) (tells l2) /\
  data (run (init nat 4) (tells l1)) = [(0, 7); (2, 20); (3, 9)].
Proof.
  cbn. repeat split.
  - repeat constructor; cbn; intuition discriminate.
  - apply Permutation_sym. apply Permutation_cons_app with (l1 := [(2, 20); (0, 7)]) (l2 := @nil (nat * nat)).
    reflexivity.
Qed.

Example C11_avg_example :
  let t := AvgSpec.tell_many Z.add Z.mul (AvgSpec.init 0%Z) in
  t [(0, 3%Z); (5, (-2)%Z); (1, 10%Z)] = t [(1, 10%Z); (0, 3%Z); (5, (-2)%Z)] /\
  AvgSpec.sum_f (t [(0, 3%Z); (5, (-2)%Z); (1, 10%Z)]) = 11%Z /\
  AvgSpec.sum_f_sq (t [(0, 3%Z); (5, (-2)%Z); (1, 10%Z); (5, 99%Z)]) = 113%Z.
Proof. vm_compute. repeat split. Qed.

(* Learner1D over the integers, factor = 1, a pending point left of the first
   evaluated point and one inside an interval: here the WHOLE state (loss
   tables included) agrees for two delivery orders, and the batch path agrees
   on both loss tables (an instance of the full statement; the loss function
   is dx^2 + dy^2 on the scaled values). *)
Definition ex_L (xs : list (option Z)) (ys : list (option (L1D.Y Z))) : Z :=
  match xs, ys with
  | [Some a; Some b], [Some (L1D.YS u); Some (L1D.YS v)] => ((b - a) * (b - a) + (v - u) * (v - u))%Z
  | _, _ => 0%Z
  end.
Definition ex_P : L1D.params Z := L1D.mkparams 0%Z 64%Z 0%Z 0 1%Z.
Definition ex_tell := OrderL1D.tell1 Z Z.sub Z.mul Z.div Z.ltb Z.eqb 0%Z 1%Z 1000000%Z (-1000000)%Z
                        (fun _ => false) (fun _ => false) (fun x => x) ex_L ex_P.
Definition ex_pending := L1D.tell_pending Z.sub Z.mul Z.div Z.ltb Z.eqb 0%Z 1%Z 1000000%Z ex_L ex_P.
Definition ex_start : L1D.st Z :=
  fold_left ex_pending [0; 64; 40]%Z (L1D.init Z.sub 0%Z 1000000%Z (-1000000)%Z ex_P).

Example C11_l1d_example :
  let l1 := [(16, L1D.YS 3); (48, L1D.YS (-5)); (32, L1D.YS 8); (64, L1D.YS 1)]%Z in
  let l2 := [(64, L1D.YS 1); (32, L1D.YS 8); (16, L1D.YS 3); (48, L1D.YS (-5))]%Z in
  fold_left ex_tell l1 ex_start = fold_left ex_tell l2 ex_start /\
  L1D.pend (fold_left ex_tell l1 ex_start) = [0; 40]%Z /\
  length (L1D.losc (fold_left ex_tell l1 ex_start)) = 5.
Proof. vm_compute. repeat split. Qed.

Print Assumptions C11_seq_order_irrelevant.
Print Assumptions C11_avg_order_irrelevant.
Print Assumptions C11_avg_order_irrelevant_Z.
Print Assumptions C11_avg_order_irrelevant_Qc.
Print Assumptions C11_avg_repeated_seed_ignored.
Print Assumptions C11_avg_state_function_of_data.
Print Assumptions C11_l1d_partial.
Print Assumptions C11_l1d_batch_partial.
Print Assumptions C11_l1d_partial_Qc.
