(* Property C11 -- what a learner knows depends on the set of results, not on
   how they arrived.  Statements only; proofs in Proofs/OrderProofs.v and
   Proofs/OrderL1D.v.

   Full statement for Learner1D (NOT proved in full; see below):

     C11_l1d_order_irrelevant : factor P = one -> FieldLaws ... ->
       all points distinct and in bounds, both end points known or pending ->
       Permutation l1 l2 ->
       fold_left tell1 l1 s = fold_left tell1 l2 s   (every component, incl. los / losc)
       /\ los (tell_many s l2 true) = los (fold_left tell1 l1 s)
       /\ losc (tell_many s l2 true) = losc (fold_left tell1 l1 s)   (exact in a field)

   What is proved:
   * C11_l1d_partial: every data-level component (data, pending, neighbors,
     neighbors_combined, _bbox, _scale) is order independent, for any start
     state (any set of pending points), scalar or vector values;
     C11_l1d_batch_partial: batch = incremental on data and pending.
   * C11_l1d_losses_order_irrelevant(_Qc): for _recompute_losses_factor = 1 and
     scalar outputs, starting from a fresh learner with ANY set of pending
     points, the loss table `losses`, loss(real=True), _oldscale and the
     x-scale of the loss managers do not depend on the order in which a set of
     distinct in-bounds results is told (uses the structural invariant of
     Proofs/L1DStruct.v and a sharpened values invariant, Proofs/OrderL1DLoss.v).
   * C11_l1d_losses_function_of_data (Proofs/L1DCanonical.v): for
     _recompute_losses_factor = 1, scalar outputs without NaN, the loss table
     is a FUNCTION OF THE DATA: any two legal histories -- any order of tells,
     incremental or batched (either path of tell_many), any asks, pending
     marks and discards in between -- that end with the same data have the
     same neighbours, y-scale, loss table and (given the same missing end
     points) the same loss(real=True).  This subsumes order independence and
     batch = incremental for `losses`.
     C11_l1d_losses_function_of_data_vec: the same for vector outputs of one
     length (the y box is the componentwise attained min / max of the data).
   What is missing (`_partial`): the table losses_combined (interpolated
   pieces), hence loss(real=False) and ask().  On the real class
   these are covered by the oracle of harness/avh/props/c11.py and the
   bit-exact correspondence only. *)
From Coq Require Import Permutation ZArith QArith Qcanon Lia.
From AV Require Import Base.Prelude Model.AvgSpec Model.Seq Proofs.SeqProofs Proofs.OrderProofs.
From AV Require Model.L1D Proofs.OrderL1D Proofs.OrderL1DLoss Proofs.L1DOrder Proofs.L1DValues Proofs.L1DBatch Proofs.L1DBracket Proofs.L1DCanonical.
Local Open Scope nat_scope.

(* ---------------- SequenceLearner ---------------- *)
(* telling results for distinct indices in any order, or all in one tell_many,
   gives the same state (to-do set, pending set, data), from any start state *)
Theorem C11_seq_order_irrelevant : forall (V : Type) (s : Seq.st V) (l1 l2 : list (nat * V)),
  NoDup (map fst l1) -> Permutation l1 l2 ->
  run s (tells l1) = run s (tells l2) /\ run s (tells l1) = seq_tell_many s l2.
Proof. exact seq_order_irrelevant. Qed.

(* ---------------- averaging learner ---------------- *)
(* over every number structure with a commutative, associative addition *)
Theorem C11_avg_order_irrelevant : forall (num : Type) (add mul : num -> num -> num),
  AddLaws add ->
  forall (s : AvgSpec.st num) (l1 l2 : list (nat * num)),
  NoDup (map fst l1) -> Permutation l1 l2 ->
  AvgSpec.tell_many add mul s l1 = AvgSpec.tell_many add mul s l2.
Proof. exact avg_order_irrelevant. Qed.

(* closed instances: exact integers and exact rationals *)
Theorem C11_avg_order_irrelevant_Z : forall (s : AvgSpec.st Z) (l1 l2 : list (nat * Z)),
  NoDup (map fst l1) -> Permutation l1 l2 ->
  AvgSpec.tell_many Z.add Z.mul s l1 = AvgSpec.tell_many Z.add Z.mul s l2.
Proof. exact (avg_order_irrelevant Z Z.add Z.mul AddLaws_Z). Qed.

Theorem C11_avg_order_irrelevant_Qc : forall (s : AvgSpec.st Qc) (l1 l2 : list (nat * Qc)),
  NoDup (map fst l1) -> Permutation l1 l2 ->
  AvgSpec.tell_many Qcplus Qcmult s l1 = AvgSpec.tell_many Qcplus Qcmult s l2.
Proof. exact (avg_order_irrelevant Qc Qcplus Qcmult AddLaws_Qc). Qed.

(* a result for an already known seed is ignored (first value kept) *)
Theorem C11_avg_repeated_seed_ignored : forall (num : Type) (add mul : num -> num -> num)
  (s : AvgSpec.st num) (n : nat) (v w : num),
  AvgSpec.tell add mul (AvgSpec.tell add mul s n v) n w = AvgSpec.tell add mul s n v.
Proof. exact avg_second_tell_ignored. Qed.

(* npoints, sum_f, sum_f_sq (hence mean, std, loss) are functions of the data *)
Theorem C11_avg_state_function_of_data : forall (num : Type) (add mul : num -> num -> num) (zero : num),
  AddLaws add ->
  forall (l : list (nat * num)),
  let s := AvgSpec.tell_many add mul (AvgSpec.init zero) l in
  s = AvgSpec.canon add mul zero (AvgSpec.data s) (AvgSpec.pend s).
Proof.
  intros num add mul zero AL l.
  exact (avg_state_function_of_data num add mul zero AL (AvgSpec.init zero) l (is_canon_init num add mul zero)).
Qed.

(* ---------------- Learner1D: data-level components ---------------- *)
Section L1D.
  Import L1D OrderL1D.
  Variable num : Type.
  Variables (add sub mul div : num -> num -> num) (ltb eqb : num -> num -> bool).
  Variables (zero one inf neg_inf : num) (is_nan is_inf : num -> bool) (round12 : num -> num).
  Variable of_nat : nat -> num.
  Variable Lf : list (option num) -> list (option (Y num)) -> num.
  Variable P : params num.

  Notation tell1 := (OrderL1D.tell1 num sub mul div ltb eqb zero one inf neg_inf is_nan is_inf round12 Lf P).
  Notation tell_many := (@L1D.tell_many num sub mul div ltb eqb zero one inf neg_inf is_nan is_inf round12 Lf P).

  Theorem C11_l1d_partial : OrdLaws ltb eqb is_nan ->
    forall (s : st num) (l1 l2 : list (num * Y num)),
    Pairwise (@related num) l1 -> Permutation l1 l2 ->
    let s1 := fold_left tell1 l1 s in let s2 := fold_left tell1 l2 s in
    data s1 = data s2 /\ pend s1 = pend s2 /\ nb s1 = nb s2 /\ nbc s1 = nbc s2 /\
    bbx s1 = bbx s2 /\ bby s1 = bby s2 /\ sx s1 = sx s2 /\ sy s1 = sy s2.
  Proof. exact (l1d_data_level_components num sub mul div ltb eqb zero one inf neg_inf is_nan is_inf round12 Lf P). Qed.

  Theorem C11_l1d_batch_partial : OrdLaws ltb eqb is_nan ->
    forall (s : st num) (xys : list (num * Y num)) (force : bool),
    NoDup (map fst xys) -> (forall x, In x (map fst xys) -> dget eqb x (data s) = None) ->
    data (tell_many s xys force) = data (fold_left tell1 xys s) /\
    pend (tell_many s xys force) = pend (fold_left tell1 xys s).
  Proof. exact (l1d_batch_data_pend num sub mul div ltb eqb zero one inf neg_inf is_nan is_inf round12 Lf P). Qed.
End L1D.

(* closed instance: exact rationals, every loss function, every parameters *)
Theorem C11_l1d_partial_Qc : forall (Lf : list (option Qc) -> list (option (L1D.Y Qc)) -> Qc)
  (P : L1D.params Qc) (inf neg_inf : Qc) (round12 : Qc -> Qc)
  (s : L1D.st Qc) (l1 l2 : list (Qc * L1D.Y Qc)),
  Pairwise (@OrderL1D.related Qc) l1 -> Permutation l1 l2 ->
  let t := OrderL1D.tell1 Qc Qcminus Qcmult Qcdiv OrderL1D.Qc_ltb OrderL1D.Qc_eqb (Q2Qc 0) (Q2Qc 1) inf neg_inf
             (fun _ => false) (fun _ => false) round12 Lf P in
  let s1 := fold_left t l1 s in let s2 := fold_left t l2 s in
  L1D.data s1 = L1D.data s2 /\ L1D.pend s1 = L1D.pend s2 /\ L1D.nb s1 = L1D.nb s2 /\
  L1D.nbc s1 = L1D.nbc s2 /\ L1D.bbx s1 = L1D.bbx s2 /\ L1D.bby s1 = L1D.bby s2 /\
  L1D.sx s1 = L1D.sx s2 /\ L1D.sy s1 = L1D.sy s2.
Proof.
  intros Lf P inf neg_inf round12.
  exact (C11_l1d_partial Qc Qcminus Qcmult Qcdiv OrderL1D.Qc_ltb OrderL1D.Qc_eqb (Q2Qc 0) (Q2Qc 1) inf neg_inf (fun _ => false) (fun _ => false) round12 Lf P
           OrderL1D.OrdLaws_Qc).
Qed.

(* ---------------- Learner1D: the loss table, factor = 1, scalar outputs ---------------- *)
Section L1DLoss.
  Import L1D OrderL1D OrderL1DLoss.
  Variable num : Type.
  Variables (add sub mul div : num -> num -> num) (ltb eqb : num -> num -> bool).
  Variables (zero one inf neg_inf : num) (is_nan is_inf : num -> bool) (round12 : num -> num).
  Variable Lf : list (option num) -> list (option (Y num)) -> num.
  Variable P : params num.

  Notation tell1 := (OrderL1D.tell1 num sub mul div ltb eqb zero one inf neg_inf is_nan is_inf round12 Lf P).
  Notation tell_pending := (@L1D.tell_pending num sub mul div ltb eqb zero one inf Lf P).
  Notation init := (@L1D.init num sub zero inf neg_inf P).
  Notation loss := (@L1D.loss num sub div ltb eqb inf is_nan is_inf round12 P).

  Theorem C11_l1d_losses_order_irrelevant :
    OrdLaws ltb eqb is_nan -> (forall a, mul (factor P) a = a) -> ScaleLaws sub ltb zero ->
    forall (pending : list num) (l1 l2 : list (num * Y num)),
    NoDup (map fst l1) ->
    Forall (good_result num ltb eqb inf neg_inf P) l1 ->       (* in bounds, scalar, finite *)
    Permutation l1 l2 ->
    let s0 := fold_left tell_pending pending init in
    let t1 := fold_left tell1 l1 s0 in let t2 := fold_left tell1 l2 s0 in
    los t1 = los t2 /\ loss t1 true = loss t2 true /\ osy t1 = osy t2 /\ mgrx t1 = mgrx t2.
  Proof. exact (l1d_losses_scalar num add sub mul div ltb eqb zero one inf neg_inf is_nan is_inf round12 Lf P). Qed.
End L1DLoss.

(* closed: exact rationals, every loss function, bounds, nth_neighbors; factor 1 *)
Theorem C11_l1d_losses_order_irrelevant_Qc :
  forall (Lf : list (option Qc) -> list (option (L1D.Y Qc)) -> Qc) (P : L1D.params Qc)
         (inf neg_inf : Qc) (round12 : Qc -> Qc),
  L1D.factor P = Q2Qc 1 ->
  forall (pending : list Qc) (l1 l2 : list (Qc * L1D.Y Qc)),
  NoDup (map fst l1) ->
  Forall (OrderL1DLoss.good_result Qc OrderL1D.Qc_ltb OrderL1D.Qc_eqb inf neg_inf P) l1 ->
  Permutation l1 l2 ->
  let tp := @L1D.tell_pending Qc Qcminus Qcmult Qcdiv OrderL1D.Qc_ltb OrderL1D.Qc_eqb (Q2Qc 0) (Q2Qc 1) inf Lf P in
  let t := OrderL1D.tell1 Qc Qcminus Qcmult Qcdiv OrderL1D.Qc_ltb OrderL1D.Qc_eqb (Q2Qc 0) (Q2Qc 1) inf neg_inf
             (fun _ => false) (fun _ => false) round12 Lf P in
  let s0 := fold_left tp pending (@L1D.init Qc Qcminus (Q2Qc 0) inf neg_inf P) in
  let loss := @L1D.loss Qc Qcminus Qcdiv OrderL1D.Qc_ltb OrderL1D.Qc_eqb inf (fun _ => false) (fun _ => false) round12 P in
  L1D.los (fold_left t l1 s0) = L1D.los (fold_left t l2 s0) /\
  loss (fold_left t l1 s0) true = loss (fold_left t l2 s0) true.
Proof. exact OrderL1DLoss.l1d_losses_scalar_Qc. Qed.

(* ---------------- non-vacuity ---------------- *)
Example C11_seq_example :
  let l1 := [(2, 20); (0, 7); (3, 9)] in let l2 := [(3, 9); (2, 20); (0, 7)] in
  NoDup (map fst l1) /\ Permutation l1 l2 /\
  run (fst (step (init nat 4) (Ask 3 true))) (tells l1) = run (fst (step (init nat 4) (Ask 3 true))) (tells l2) /\
  data (run (init nat 4) (tells l1)) = [(0, 7); (2, 20); (3, 9)].
Proof.
  cbn. repeat split.
  - repeat constructor; cbn; intuition discriminate.
  - apply Permutation_sym. apply Permutation_cons_app with (l1 := [(2, 20); (0, 7)]) (l2 := @nil (nat * nat)).
    reflexivity.
Qed.

Example C11_avg_example :
  let t := AvgSpec.tell_many Z.add Z.mul (AvgSpec.init 0%Z) in
  t [(0, 3%Z); (5, (-2)%Z); (1, 10%Z)] = t [(1, 10%Z); (0, 3%Z); (5, (-2)%Z)] /\
  AvgSpec.sum_f (t [(0, 3%Z); (5, (-2)%Z); (1, 10%Z)]) = 11%Z /\
  AvgSpec.sum_f_sq (t [(0, 3%Z); (5, (-2)%Z); (1, 10%Z); (5, 99%Z)]) = 113%Z.
Proof. vm_compute. repeat split. Qed.

(* Learner1D over the integers, factor = 1, a pending point left of the first
   evaluated point and one inside an interval: here the WHOLE state (loss
   tables included) agrees for two delivery orders, and the batch path agrees
   on both loss tables (an instance of the full statement; the loss function
   is dx^2 + dy^2 on the scaled values). *)
Definition ex_L (xs : list (option Z)) (ys : list (option (L1D.Y Z))) : Z :=
  match xs, ys with
  | [Some a; Some b], [Some (L1D.YS u); Some (L1D.YS v)] => ((b - a) * (b - a) + (v - u) * (v - u))%Z
  | _, _ => 0%Z
  end.
Definition ex_P : L1D.params Z := L1D.mkparams 0%Z 64%Z 0%Z 0 1%Z.
Definition ex_tell := OrderL1D.tell1 Z Z.sub Z.mul Z.div Z.ltb Z.eqb 0%Z 1%Z 1000000%Z (-1000000)%Z
                        (fun _ => false) (fun _ => false) (fun x => x) ex_L ex_P.
Definition ex_pending := L1D.tell_pending Z.sub Z.mul Z.div Z.ltb Z.eqb 0%Z 1%Z 1000000%Z ex_L ex_P.
Definition ex_start : L1D.st Z :=
  fold_left ex_pending [0; 64; 40]%Z (L1D.init Z.sub 0%Z 1000000%Z (-1000000)%Z ex_P).

Example C11_l1d_example :
  let l1 := [(16, L1D.YS 3); (48, L1D.YS (-5)); (32, L1D.YS 8); (64, L1D.YS 1)]%Z in
  let l2 := [(64, L1D.YS 1); (32, L1D.YS 8); (16, L1D.YS 3); (48, L1D.YS (-5))]%Z in
  fold_left ex_tell l1 ex_start = fold_left ex_tell l2 ex_start /\
  L1D.pend (fold_left ex_tell l1 ex_start) = [0; 40]%Z /\
  length (L1D.losc (fold_left ex_tell l1 ex_start)) = 5.
Proof. vm_compute. repeat split. Qed.

(* the hypotheses of the loss-table theorem are satisfiable: the result set of
   C11_l1d_example (with the pending points 0, 64, 40) meets them, so its
   conclusion follows from the theorem rather than from computation *)
Example C11_l1d_losses_example :
  let l1 := [(16, L1D.YS 3); (48, L1D.YS (-5)); (32, L1D.YS 8); (64, L1D.YS 1)]%Z in
  let l2 := [(64, L1D.YS 1); (32, L1D.YS 8); (16, L1D.YS 3); (48, L1D.YS (-5))]%Z in
  NoDup (map fst l1) /\
  Forall (OrderL1DLoss.good_result Z Z.ltb Z.eqb 1000000%Z (-1000000)%Z ex_P) l1 /\
  L1D.los (fold_left ex_tell l1 ex_start) = L1D.los (fold_left ex_tell l2 ex_start).
Proof.
  cbn zeta.
  assert (Hnd : NoDup (map fst [(16, L1D.YS 3); (48, L1D.YS (-5)); (32, L1D.YS 8); (64, L1D.YS 1)]%Z)).
  { cbn. repeat constructor; cbn; intuition discriminate. }
  assert (Hg : Forall (OrderL1DLoss.good_result Z Z.ltb Z.eqb 1000000%Z (-1000000)%Z ex_P)
                 [(16, L1D.YS 3); (48, L1D.YS (-5)); (32, L1D.YS 8); (64, L1D.YS 1)]%Z).
  { repeat constructor; cbn; eexists; (split; [reflexivity|split; reflexivity]). }
  split; [exact Hnd|]. split; [exact Hg|].
  assert (HP : Permutation [(16, L1D.YS 3); (48, L1D.YS (-5)); (32, L1D.YS 8); (64, L1D.YS 1)]%Z
                           [(64, L1D.YS 1); (32, L1D.YS 8); (16, L1D.YS 3); (48, L1D.YS (-5))]%Z).
  { apply Permutation_sym. apply (Permutation_cons_app [(16, L1D.YS 3); (48, L1D.YS (-5)); (32, L1D.YS 8)]%Z nil).
    rewrite app_nil_r. apply (Permutation_cons_app [(16, L1D.YS 3); (48, L1D.YS (-5))]%Z nil). rewrite app_nil_r.
    apply Permutation_refl. }
  exact (proj1 (C11_l1d_losses_order_irrelevant Z Z.add Z.sub Z.mul Z.div Z.ltb Z.eqb 0%Z 1%Z 1000000%Z (-1000000)%Z
           (fun _ => false) (fun _ => false) (fun x => x) ex_L ex_P OrderL1D.OrdLaws_Z (fun a => Z.mul_1_l a)
           OrderL1DLoss.ScaleLaws_Z [0; 64; 40]%Z _ _ Hnd Hg HP)).
Qed.


Lemma L1DOrder_Z : L1DOrder.OrdLaws Z.ltb Z.eqb.
Proof.
  constructor.
  - intros x y. apply Z.eqb_eq.
  - intros x. apply Z.ltb_irrefl.
  - intros x y z H1 H2. apply Z.ltb_lt in H1, H2. apply Z.ltb_lt. lia.
  - intros x y H1 H2. apply Z.ltb_ge in H1, H2. lia.
Qed.

(* ---------------- Learner1D: the loss table is a function of the data ---------------- *)
Theorem C11_l1d_losses_function_of_data :
  forall (num : Type) (add sub mul div : num -> num -> num) (ltb eqb : num -> num -> bool)
         (zero one inf neg_inf : num) (is_nan is_inf : num -> bool) (round12 : num -> num) (of_nat : nat -> num)
         (L : list (option num) -> list (option (L1D.Y num)) -> num) (P : L1D.params num),
  L1DOrder.OrdLaws ltb eqb -> (forall z, is_nan z = false) ->
  L1DBracket.SubLaws sub ltb zero -> (forall x, mul (L1D.factor P) x = x) ->
  let run := @L1D.run num add sub mul div ltb eqb zero one inf neg_inf is_nan is_inf round12 of_nat L P in
  let init := @L1D.init num sub zero inf neg_inf P in
  let clegal := @L1DCanonical.clegal num add sub mul div ltb eqb zero one inf neg_inf is_nan is_inf round12 of_nat L P in
  let loss := @L1D.loss num sub div ltb eqb inf is_nan is_inf round12 P in
  forall h1 h2, clegal init h1 = true -> clegal init h2 = true ->
  L1D.data (run init h1) = L1D.data (run init h2) ->
  L1D.nb (run init h1) = L1D.nb (run init h2) /\ L1D.sy (run init h1) = L1D.sy (run init h2) /\
  L1D.los (run init h1) = L1D.los (run init h2) /\
  (L1D.missing_bounds eqb P (run init h1) = L1D.missing_bounds eqb P (run init h2) ->
   loss (run init h1) true = loss (run init h2) true).
Proof.
  intros num add sub mul div ltb eqb zero one inf neg_inf is_nan is_inf round12 of_nat L P OL NoNaN SL F1.
  exact (@L1DCanonical.losses_function_of_data num add sub mul div ltb eqb zero one inf neg_inf is_nan is_inf round12 of_nat L P OL NoNaN SL F1).
Qed.

(* non-vacuity: an incremental history with pending marks, an ask and a discard,
   and a batched one in another order, end with the same data; both are legal *)
Definition fd_P : L1D.params Z := L1D.mkparams 0%Z 100%Z 0%Z 0 1%Z.
Definition fd_h1 : list (L1D.op Z) :=
  [L1D.Tell 0%Z (L1D.YS 5%Z); L1D.TellPending 30%Z; L1D.Tell 100%Z (L1D.YS 9%Z); L1D.Ask 2 true;
   L1D.Tell 50%Z (L1D.YS 400%Z); L1D.RemoveUnfinished; L1D.Tell 25%Z (L1D.YS 1%Z); L1D.TellPending 70%Z].
Definition fd_h2 : list (L1D.op Z) :=
  [L1D.TellPending 0%Z; L1D.TellPending 100%Z;
   L1D.TellMany [(25%Z, L1D.YS 1%Z); (100%Z, L1D.YS 9%Z); (0%Z, L1D.YS 5%Z); (50%Z, L1D.YS 400%Z)] true].
Local Notation fd_run := (@L1D.run Z Z.add Z.sub Z.mul Z.div Z.ltb Z.eqb 0%Z 1%Z 1000000%Z (-1000000)%Z
                        (fun _ => false) (fun _ => false) (fun x => x) Z.of_nat ex_L fd_P).
Local Notation fd_init := (@L1D.init Z Z.sub 0%Z 1000000%Z (-1000000)%Z fd_P).
Local Notation fd_clegal := (@L1DCanonical.clegal Z Z.add Z.sub Z.mul Z.div Z.ltb Z.eqb 0%Z 1%Z 1000000%Z (-1000000)%Z
                        (fun _ => false) (fun _ => false) (fun x => x) Z.of_nat ex_L fd_P).
Example C11_l1d_function_of_data_example :
  fd_clegal fd_init fd_h1 = true /\ fd_clegal fd_init fd_h2 = true /\
  L1D.data (fd_run fd_init fd_h1) = L1D.data (fd_run fd_init fd_h2) /\
  L1D.pend (fd_run fd_init fd_h1) <> L1D.pend (fd_run fd_init fd_h2) /\
  L1D.los (fd_run fd_init fd_h1) = L1D.los (fd_run fd_init fd_h2) /\
  map snd (L1D.los (fd_run fd_init fd_h1)) <> [0; 0; 0]%Z.
Proof.
  assert (H1 : fd_clegal fd_init fd_h1 = true) by (vm_compute; reflexivity).
  assert (H2 : fd_clegal fd_init fd_h2 = true) by (vm_compute; reflexivity).
  assert (Hd : L1D.data (fd_run fd_init fd_h1) = L1D.data (fd_run fd_init fd_h2)) by (vm_compute; reflexivity).
  pose proof (C11_l1d_losses_function_of_data Z Z.add Z.sub Z.mul Z.div Z.ltb Z.eqb 0%Z 1%Z 1000000%Z (-1000000)%Z
             (fun _ => false) (fun _ => false) (fun x => x) Z.of_nat ex_L fd_P L1DOrder_Z (fun _ => eq_refl)
             L1DBracket.SubLaws_Z (fun a => Z.mul_1_l a)) as T.
  cbv zeta in T. specialize (T fd_h1 fd_h2 H1 H2 Hd). destruct T as [_ [_ [T3 _]]].
  split; [exact H1|]. split; [exact H2|]. split; [exact Hd|]. split; [vm_compute; discriminate|]. split; [exact T3|].
  vm_compute. discriminate.
Qed.


(* the same for vector-valued functions (values of one length k, no NaN) *)
Theorem C11_l1d_losses_function_of_data_vec :
  forall (num : Type) (add sub mul div : num -> num -> num) (ltb eqb : num -> num -> bool)
         (zero one inf neg_inf : num) (is_nan is_inf : num -> bool) (round12 : num -> num) (of_nat : nat -> num)
         (L : list (option num) -> list (option (L1D.Y num)) -> num) (P : L1D.params num),
  L1DOrder.OrdLaws ltb eqb -> (forall z, is_nan z = false) ->
  L1DBracket.SubLaws sub ltb zero -> (forall x, mul (L1D.factor P) x = x) ->
  let run := @L1D.run num add sub mul div ltb eqb zero one inf neg_inf is_nan is_inf round12 of_nat L P in
  let init := @L1D.init num sub zero inf neg_inf P in
  let clegal_v := @L1DCanonical.clegal_v num add sub mul div ltb eqb zero one inf neg_inf is_nan is_inf round12 of_nat L P in
  let loss := @L1D.loss num sub div ltb eqb inf is_nan is_inf round12 P in
  forall k h1 h2, clegal_v k init h1 = true -> clegal_v k init h2 = true ->
  L1D.data (run init h1) = L1D.data (run init h2) ->
  L1D.nb (run init h1) = L1D.nb (run init h2) /\ L1D.sy (run init h1) = L1D.sy (run init h2) /\
  L1D.los (run init h1) = L1D.los (run init h2) /\
  (L1D.missing_bounds eqb P (run init h1) = L1D.missing_bounds eqb P (run init h2) ->
   loss (run init h1) true = loss (run init h2) true).
Proof.
  intros num add sub mul div ltb eqb zero one inf neg_inf is_nan is_inf round12 of_nat L P OL NoNaN SL F1.
  exact (@L1DCanonical.losses_function_of_data_v num add sub mul div ltb eqb zero one inf neg_inf is_nan is_inf round12 of_nat L P OL NoNaN SL F1).
Qed.

Definition fv_L (xs : list (option Z)) (ys : list (option (L1D.Y Z))) : Z :=
  match xs, ys with
  | [Some a; Some b], [Some (L1D.YV [u1; u2]); Some (L1D.YV [v1; v2])] => ((b - a) + (v1 - u1) * (v1 - u1) + 3 * (v2 - u2) * (v2 - u2))%Z
  | _, _ => 0%Z
  end.
Definition fv_h1 : list (L1D.op Z) :=
  [L1D.Tell 0%Z (L1D.YV [5; 1]%Z); L1D.TellPending 30%Z; L1D.Tell 100%Z (L1D.YV [9; (-4)]%Z); L1D.Ask 2 true;
   L1D.Tell 50%Z (L1D.YV [400; 2]%Z); L1D.RemoveUnfinished; L1D.Tell 25%Z (L1D.YV [1; 70]%Z); L1D.TellPending 70%Z].
Definition fv_h2 : list (L1D.op Z) :=
  [L1D.TellPending 0%Z; L1D.TellPending 100%Z;
   L1D.TellMany [(25%Z, L1D.YV [1; 70]%Z); (100%Z, L1D.YV [9; (-4)]%Z); (0%Z, L1D.YV [5; 1]%Z); (50%Z, L1D.YV [400; 2]%Z)] true].
Local Notation fv_run := (@L1D.run Z Z.add Z.sub Z.mul Z.div Z.ltb Z.eqb 0%Z 1%Z 1000000%Z (-1000000)%Z
                        (fun _ => false) (fun _ => false) (fun x => x) Z.of_nat fv_L fd_P).
Local Notation fv_clegal := (@L1DCanonical.clegal_v Z Z.add Z.sub Z.mul Z.div Z.ltb Z.eqb 0%Z 1%Z 1000000%Z (-1000000)%Z
                        (fun _ => false) (fun _ => false) (fun x => x) Z.of_nat fv_L fd_P).
Example C11_l1d_function_of_data_vec_example :
  fv_clegal 2 fd_init fv_h1 = true /\ fv_clegal 2 fd_init fv_h2 = true /\
  L1D.data (fv_run fd_init fv_h1) = L1D.data (fv_run fd_init fv_h2) /\
  L1D.los (fv_run fd_init fv_h1) = L1D.los (fv_run fd_init fv_h2) /\
  map snd (L1D.los (fv_run fd_init fv_h1)) <> [0; 0; 0]%Z.
Proof.
  assert (H1 : fv_clegal 2 fd_init fv_h1 = true) by (vm_compute; reflexivity).
  assert (H2 : fv_clegal 2 fd_init fv_h2 = true) by (vm_compute; reflexivity).
  assert (Hd : L1D.data (fv_run fd_init fv_h1) = L1D.data (fv_run fd_init fv_h2)) by (vm_compute; reflexivity).
  pose proof (C11_l1d_losses_function_of_data_vec Z Z.add Z.sub Z.mul Z.div Z.ltb Z.eqb 0%Z 1%Z 1000000%Z (-1000000)%Z
             (fun _ => false) (fun _ => false) (fun x => x) Z.of_nat fv_L fd_P L1DOrder_Z (fun _ => eq_refl)
             L1DBracket.SubLaws_Z (fun a => Z.mul_1_l a)) as T.
  cbv zeta in T. specialize (T 2 fv_h1 fv_h2 H1 H2 Hd). destruct T as [_ [_ [T3 _]]].
  split; [exact H1|]. split; [exact H2|]. split; [exact Hd|]. split; [exact T3|].
  vm_compute. discriminate.
Qed.

Print Assumptions C11_seq_order_irrelevant.
Print Assumptions C11_avg_order_irrelevant.
Print Assumptions C11_avg_order_irrelevant_Z.
Print Assumptions C11_avg_order_irrelevant_Qc.
Print Assumptions C11_avg_repeated_seed_ignored.
Print Assumptions C11_avg_state_function_of_data.
Print Assumptions C11_l1d_partial.
Print Assumptions C11_l1d_batch_partial.
Print Assumptions C11_l1d_partial_Qc.
Print Assumptions C11_l1d_losses_order_irrelevant.
Print Assumptions C11_l1d_losses_order_irrelevant_Qc.
Print Assumptions C11_l1d_losses_function_of_data.
Print Assumptions C11_l1d_function_of_data_example.
Print Assumptions C11_l1d_losses_function_of_data_vec.
Print Assumptions C11_l1d_function_of_data_vec_example.
