(* Property C01 -- Learner1D: reported loss is the true worst-interval loss of
   the current data.  Statements only (each closed by [exact]); proofs are in
   Proofs/L1DStruct.v, L1DLoss.v, L1DProofs.v.

   The theorems are about Model/L1D.v for EVERY number structure whose
   comparison satisfies [OrdLaws] (a strict total order with decidable
   equality), EVERY loss function L (an abstract function of the scaled
   neighbourhood), every bounds / nth_neighbors / recompute factor, and every
   history satisfying [legal].  [OrdLaws] is inhabited (Z below); IEEE doubles
   satisfy it on the values a learner meets when no NaN occurs -- that, and
   "model = code", is what the per-run correspondence validates.

   Proved here:  (1) along every legal history the two loss tables are keyed
   exactly by the neighbouring pairs of the evaluated, resp. evaluated-or-
   pending, points, and evaluated/pending/data bookkeeping is consistent;
   (2) loss(real) is infinite while an end point is neither evaluated nor
   pending or no interval exists, and otherwise is the stored loss of an entry
   of maximal sort key; (3) the rescale sweep recomputes EVERY interval at the
   current scale (the defect repaired in /repo 6d8622d); (4) discarding
   unfinished points makes the expected table equal the real one.
   (5) C01_values_inv: every stored loss equals the loss function on the
   CURRENT data at a y-scale that is the scale of the last full recomputation
   or at most factor times it, for nth_neighbors arbitrary (window / frame
   lemma), along every legal history.
   (6) C01_combined_interp: the interpolation rule for pieces cut by pending
   points and "infinite only where no evaluated point exists on one side".
   (7) C01_scale_bracket / C01_factor1_exact (scalar outputs): behind every
   scale g at which a stored loss was computed there is a bounding box of the
   values lying between the box of the last full recomputation and the current
   one (order laws only); with a width function that grows with the box
   ([SubLaws], inhabited by Z) this reads  osy <= g <= sy  and, since
   sy <= factor * osy or sy = osy,  "never more than the factor out of date";
   with the factor equal to the unit every stored loss IS the loss function on
   the current data at the current scale ("exact when set to 1").
   The batch path of tell_many is covered throughout (Proofs/L1DBatch.v: it
   re-establishes all invariants from scratch).
   (7) is proved for scalar outputs and (C01_*_vec) for vector outputs of one
   length without NaN; NaN values are outside the order laws. *)
From Coq Require Import ZArith Lia.
From AV Require Import Base.Prelude Model.L1D Proofs.L1DOrder Proofs.L1DMaps Proofs.L1DStruct Proofs.L1DLoss Proofs.L1DValues Proofs.L1DBatch Proofs.L1DCombined Proofs.L1DBatchTi Proofs.L1DBatchC Proofs.L1DProofs Proofs.L1DBracket.

Section C01.
  Variable num : Type.
  Variables (add sub mul div : num -> num -> num).
  Variables (ltb eqb : num -> num -> bool).
  Variables (zero one inf neg_inf : num).
  Variables (is_nan is_inf : num -> bool).
  Variable round12 : num -> num.
  Variable of_nat : nat -> num.
  Variable L : list (option num) -> list (option (Y num)) -> num.
  Variable P : params num.

  Let run := @run num add sub mul div ltb eqb zero one inf neg_inf is_nan is_inf round12 of_nat L P.
  Let init := @init num sub zero inf neg_inf P.
  (* the quantifier domain (see Proofs/L1DBatch.v): told points inside the bounds;
     a batched tell only when the resulting x bounding box equals the bounds.  Since the
     repair of the batch path (/repo 0eef8ad: the box never shrinks below the domain) that
     holds whenever no known or pending point lies outside the bounds; before it, it
     required both end points to be known or pending -- the property's proviso *)
  Let legal := @L1DBatch.legal num add sub mul div ltb eqb zero one inf neg_inf is_nan is_inf round12 of_nat L P.
  Let loss := @loss num sub div ltb eqb inf is_nan is_inf round12 P.
  Let sweep := @sweep num sub mul div ltb eqb zero one is_nan is_inf round12 L P.
  Let get_loss := @get_loss num sub div ltb eqb zero one L P.

  Lemma reach_inv : OrdLaws ltb eqb -> forall h, legal init h = true ->
    L1DBatch.Inv sub mul div ltb eqb zero one L P (run init h).
  Proof.
    intros OL h Hl.
    exact (@full_inv num add sub mul div ltb eqb zero one inf neg_inf is_nan is_inf round12 of_nat L P OL h init
             (inv_init add sub mul div ltb eqb zero one inf neg_inf is_nan is_inf round12 L P) Hl).
  Qed.

  Theorem C01_structure_inv : OrdLaws ltb eqb -> forall h,
    legal init h = true -> SInv ltb eqb (run init h).
  Proof. intros OL h Hl. exact (proj1 (reach_inv OL h Hl)). Qed.

  (* every stored loss is the loss function applied to the CURRENT data (the
     2+2*nn neighbouring evaluated points of the current point set, current
     x-scale) at a y-scale g that is the scale of the last full recomputation
     or at most [factor] times it ([ScaleOK]); the x-normalisation is the
     domain width throughout *)
  Theorem C01_values_inv : OrdLaws ltb eqb -> forall h,
    legal init h = true ->
    VInv sub mul div ltb eqb zero one L P (run init h).
  Proof. intros OL h Hl. exact (proj2 (proj2 (reach_inv OL h Hl))). Qed.

  (* the first sentence of the property, in one statement: on every reachable
     state with both end points evaluated-or-pending, loss() is the loss
     function's value on a pair of neighbouring evaluated points of the
     current data, and no other neighbouring pair has a larger sort key *)
  Theorem C01_reported_loss : OrdLaws ltb eqb -> forall h,
    legal init h = true ->
    let s := run init h in
    missing_bounds eqb P s = [] -> los s <> [] ->
    exists a b g, adj ltb (nb s) (a, b) /\ ScaleOK mul ltb P s g /\
      loss s true = loss_of sub div ltb eqb zero one L P (nb s) (data s) (sx s) g a b /\
      forall a' b', adj ltb (nb s) (a', b') -> exists g', ScaleOK mul ltb P s g' /\
        ltb (finite_loss2 sub div is_nan is_inf round12 (a, b) (loss s true) (mgrx s))
            (finite_loss2 sub div is_nan is_inf round12 (a', b')
               (loss_of sub div ltb eqb zero one L P (nb s) (data s) (sx s) g' a' b') (mgrx s)) = false.
  Proof.
    intros OL h Hl s.
    destruct (reach_inv OL h Hl) as [HI [_ HV]].
    exact (@reported_loss num sub mul div ltb eqb zero one inf is_nan is_inf round12 L P OL s HI HV).
  Qed.

  (* the second sentence of the property: for every consecutive pair k of
     evaluated-or-pending points, the expected loss stored for k is
     EITHER the loss v stored for the evaluated interval (a, b) that encloses
       k, in proportion to k's width, (q - p) * v / (b - a) -- or v itself
       when k is the whole interval and the value was copied verbatim,
     OR infinite, and then there is no evaluated point at or left of k, or
       none at or right of k                                     ([COK]).
     Batched tells are covered: Proofs/L1DBatchTi.v proves that the rebuild
     schedules every evaluated interval that contains pending points for
     re-interpolation (the code repaired by /repo 5b2c94e). *)
  Theorem C01_combined_interp : OrdLaws ltb eqb -> forall h,
    legal init h = true ->
    forall k val, adj ltb (nbc (run init h)) k -> lget eqb k (losc (run init h)) = Some val ->
      COK sub mul div ltb eqb inf (nb (run init h)) (los (run init h)) k val.
  Proof.
    intros OL h Hl.
    exact (@combined_inv_full num add sub mul div ltb eqb zero one inf neg_inf is_nan is_inf round12 of_nat L P OL h init
             (inv_init add sub mul div ltb eqb zero one inf neg_inf is_nan is_inf round12 L P)
             (@cinv_init num sub mul div ltb eqb zero inf neg_inf P) Hl).
  Qed.

  Theorem C01_loss_is_max : OrdLaws ltb eqb -> forall (s : st num) (real : bool),
    let table := if real then los s else losc s in
    (missing_bounds eqb P s <> [] \/ table = [] -> loss s real = inf) /\
    (missing_bounds eqb P s = [] -> table <> [] ->
       exists e, In e table /\ loss s real = snd e /\
                 forall e', In e' table ->
                   ltb (fl sub div is_nan is_inf round12 (mgrx s) e)
                       (fl sub div is_nan is_inf round12 (mgrx s) e') = false).
  Proof. exact (@loss_is_max num sub div ltb eqb inf is_nan is_inf round12 P). Qed.

  Theorem C01_sweep_resets_all : OrdLaws ltb eqb -> forall (s : st num) iv,
    In iv (keys (los s)) ->
    lget eqb iv (los (sweep s)) = Some (get_loss (sweep s) (fst iv) (snd iv)).
  Proof. exact (@sweep_resets_all num sub mul div ltb eqb zero one is_nan is_inf round12 L P). Qed.

  Theorem C01_discard_resets : forall (s : st num),
    pend (remove_unfinished s) = [] /\
    losc (remove_unfinished s) = los (remove_unfinished s) /\
    nbc (remove_unfinished s) = nb (remove_unfinished s) /\
    data (remove_unfinished s) = data s /\ los (remove_unfinished s) = los s.
  Proof. exact (@remove_unfinished_resets num). Qed.

  (* "the output normalisation never more than the recomputation factor out of
     date": every stored loss is the loss function on the current data at a
     y-scale g between the scale of the last full recomputation and the
     current one, and the current one exceeds the former by at most the factor
     (or equals it).  Scalar outputs; [SubLaws]: the width of a box grows with
     the box and is not negative. *)
  Theorem C01_scale_bracket : OrdLaws ltb eqb -> SubLaws sub ltb zero -> forall h,
    legal init h = true -> forallb (@scalar_op num) h = true ->
    let s := run init h in
    ScaleOK mul ltb P s (sy s) /\
    forall iv, In iv (keys (los s)) -> exists g,
      lget eqb iv (los s) = Some (loss_of sub div ltb eqb zero one L P (nb s) (data s) (sx s) g (fst iv) (snd iv)) /\
      L1DValues.le ltb (osy s) g /\ L1DValues.le ltb g (sy s).
  Proof.
    exact (@scale_bracket num add sub mul div ltb eqb zero one inf neg_inf is_nan is_inf round12 of_nat L P).
  Qed.

  (* "exact when set to 1" *)
  Theorem C01_factor1_exact : OrdLaws ltb eqb -> SubLaws sub ltb zero ->
    (forall x, mul (factor P) x = x) -> forall h,
    legal init h = true -> forallb (@scalar_op num) h = true ->
    let s := run init h in
    forall iv, In iv (keys (los s)) -> lget eqb iv (los s) = Some (get_loss s (fst iv) (snd iv)).
  Proof.
    exact (@factor1_exact num add sub mul div ltb eqb zero one inf neg_inf is_nan is_inf round12 of_nat L P).
  Qed.

  (* the same for vector-valued functions (all values of one length k) when no
     value is NaN: the y-scale is the largest component range *)
  Theorem C01_scale_bracket_vec : OrdLaws ltb eqb -> (forall z, is_nan z = false) -> SubLaws sub ltb zero ->
    forall k h, legal init h = true -> forallb (@vector_op num k) h = true ->
    let s := run init h in
    ScaleOK mul ltb P s (sy s) /\
    forall iv, In iv (keys (los s)) -> exists g,
      lget eqb iv (los s) = Some (loss_of sub div ltb eqb zero one L P (nb s) (data s) (sx s) g (fst iv) (snd iv)) /\
      L1DValues.le ltb (osy s) g /\ L1DValues.le ltb g (sy s).
  Proof.
    exact (@scale_bracket_v num add sub mul div ltb eqb zero one inf neg_inf is_nan is_inf round12 of_nat L P).
  Qed.

  Theorem C01_factor1_exact_vec : OrdLaws ltb eqb -> (forall z, is_nan z = false) -> SubLaws sub ltb zero ->
    (forall x, mul (factor P) x = x) -> forall k h,
    legal init h = true -> forallb (@vector_op num k) h = true ->
    let s := run init h in
    forall iv, In iv (keys (los s)) -> lget eqb iv (los s) = Some (get_loss s (fst iv) (snd iv)).
  Proof.
    exact (@factor1_exact_v num add sub mul div ltb eqb zero one inf neg_inf is_nan is_inf round12 of_nat L P).
  Qed.
End C01.

(* ---- the law record is inhabited: integers ---- *)
Lemma Z_ord_laws : OrdLaws Z.ltb Z.eqb.
Proof.
  constructor.
  - intros x y. apply Z.eqb_eq.
  - intros x. apply Z.ltb_irrefl.
  - intros x y z H1 H2. apply Z.ltb_lt in H1, H2. apply Z.ltb_lt. lia.
  - intros x y H1 H2. apply Z.ltb_ge in H1, H2. lia.
Qed.

Lemma Z_sub_laws : SubLaws Z.sub Z.ltb 0%Z.
Proof. exact SubLaws_Z. Qed.

(* ---- non-vacuity: a concrete history (pending point cutting an evaluated
        interval, an ask, a discard) is legal, so the invariant applies ---- *)
Definition zP : params Z := mkparams 0%Z 100%Z 0%Z 0 2%Z.
Definition zL (xs : list (option Z)) (ys : list (option (Y Z))) : Z := 7%Z.
Definition zh : list (op Z) :=
  [Tell 0%Z (YS 5%Z); Tell 100%Z (YS 9%Z); TellPending 50%Z; Ask 2 true;
   Tell 50%Z (YS 400%Z); RemoveUnfinished; Tell 25%Z (YS 1%Z);
   TellPending 10%Z; TellMany [(75%Z, YS 3%Z); (60%Z, YS 2%Z)] true].
Definition zrun := @run Z Z.add Z.sub Z.mul Z.div Z.ltb Z.eqb 0%Z 1%Z 1000000000%Z (-1000000000)%Z
                        (fun _ => false) (fun z => Z.eqb (Z.abs z) 1000000000%Z) (fun z => z) Z.of_nat zL zP.
Definition zinit := @init Z Z.sub 0%Z 1000000000%Z (-1000000000)%Z zP.
Example C01_example :
  @L1DBatch.legal Z Z.add Z.sub Z.mul Z.div Z.ltb Z.eqb 0%Z 1%Z 1000000000%Z (-1000000000)%Z
         (fun _ => false) (fun z => Z.eqb (Z.abs z) 1000000000%Z) (fun z => z) Z.of_nat zL zP zinit zh = true /\
  map fst (los (zrun zinit zh)) = [(0, 25); (25, 50); (50, 60); (60, 75); (75, 100)]%Z /\
  SInv Z.ltb Z.eqb (zrun zinit zh).
Proof.
  assert (Hl : @L1DBatch.legal Z Z.add Z.sub Z.mul Z.div Z.ltb Z.eqb 0%Z 1%Z 1000000000%Z (-1000000000)%Z
         (fun _ => false) (fun z => Z.eqb (Z.abs z) 1000000000%Z) (fun z => z) Z.of_nat zL zP zinit zh = true)
    by (vm_compute; reflexivity).
  split; [exact Hl|]. split; [vm_compute; reflexivity|].
  exact (@C01_structure_inv Z Z.add Z.sub Z.mul Z.div Z.ltb Z.eqb 0%Z 1%Z 1000000000%Z (-1000000000)%Z
           (fun _ => false) (fun z => Z.eqb (Z.abs z) 1000000000%Z) (fun z => z) Z.of_nat zL zP Z_ord_laws zh Hl).
Qed.

(* the bracket applies to scalar-valued histories such as zh, and its premises
   are met by histories on which the scales really differ: after zh2 the last
   full recomputation happened at scale 10 while the current scale is 18
   (interval (0,50) was last computed at 15) *)
Definition zh2 : list (op Z) :=
  [Tell 0%Z (YS 0%Z); Tell 100%Z (YS 10%Z); Tell 50%Z (YS 15%Z); Tell 75%Z (YS (-3)%Z)].
Definition zh3 : list (op Z) :=
  [Tell 0%Z (YV [0; 7]%Z); Tell 100%Z (YV [10; 7]%Z); TellPending 30%Z; Tell 50%Z (YV [15; 8]%Z);
   Tell 75%Z (YV [(-3); 9]%Z); TellMany [(20%Z, YV [1; 1]%Z)] true].
Example C01_bracket_example_vec :
  forallb (@vector_op Z 2) zh3 = true /\
  @L1DBatch.legal Z Z.add Z.sub Z.mul Z.div Z.ltb Z.eqb 0%Z 1%Z 1000000000%Z (-1000000000)%Z
         (fun _ => false) (fun z => Z.eqb (Z.abs z) 1000000000%Z) (fun z => z) Z.of_nat zL zP zinit zh3 = true /\
  sy (zrun zinit zh3) = 18%Z.
Proof. vm_compute. repeat split; reflexivity. Qed.

Example C01_bracket_example :
  forallb (@scalar_op Z) zh = true /\ forallb (@scalar_op Z) zh2 = true /\
  @L1DBatch.legal Z Z.add Z.sub Z.mul Z.div Z.ltb Z.eqb 0%Z 1%Z 1000000000%Z (-1000000000)%Z
         (fun _ => false) (fun z => Z.eqb (Z.abs z) 1000000000%Z) (fun z => z) Z.of_nat zL zP zinit zh2 = true /\
  osy (zrun zinit zh2) = 10%Z /\ sy (zrun zinit zh2) = 18%Z.
Proof. vm_compute. repeat split; reflexivity. Qed.

Print Assumptions C01_structure_inv.
Print Assumptions C01_scale_bracket.
Print Assumptions C01_factor1_exact.
Print Assumptions C01_scale_bracket_vec.
Print Assumptions C01_factor1_exact_vec.
Print Assumptions C01_values_inv.
Print Assumptions C01_reported_loss.
Print Assumptions C01_combined_interp.
Print Assumptions C01_loss_is_max.
Print Assumptions C01_sweep_resets_all.
Print Assumptions C01_discard_resets.
Print Assumptions C01_example.
