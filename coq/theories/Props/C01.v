(* Property C01 -- Learner1D: reported loss is the true worst-interval loss of
   the current data.  Statements only; proofs in Proofs/L1DProofs.v. *)
From AV Require Import Base.Prelude Model.L1D Proofs.L1DProofs.

Theorem C01_discard_resets : forall (num : Type) (s : st num),
  pend (remove_unfinished s) = [] /\
  losc (remove_unfinished s) = los (remove_unfinished s) /\
  nbc (remove_unfinished s) = nb (remove_unfinished s) /\
  data (remove_unfinished s) = data s /\ los (remove_unfinished s) = los s.
Proof. exact remove_unfinished_resets. Qed.

Print Assumptions C01_discard_resets.
