(* Property C13 -- saving, pickling or copying a learner and restoring it
   loses nothing.  Statements only; proofs in Proofs/RoundtripProofs.v and
   Proofs/OrderL1D.v.  _get_data / _set_data (what save/load, copy_from and
   __getstate__/__setstate__ go through) are pure functions on the models; the
   byte layer (cloudpickle, gzip, file) is the identity in the model and is
   exercised on the real classes by harness/avh/props/c13.py.

   Full statement for Learner1D (NOT proved here):
     C13_l1d_state_roundtrip : factor P = one -> FieldLaws -> legal h -> no pending ->
       both end points evaluated ->
       los / losc / loss / ask_points of (set_data init (get_data s)) = those of s
   needs the canonical-form result "for factor = 1 the state is a function of
   (data, pending)".  Proved: the data dictionary is rebuilt exactly, after
   EVERY history (C13_l1d_data_roundtrip); and, from the canonical-form theorem
   of Proofs/L1DCanonical.v (for factor 1 the loss table is a function of the
   data), C13_l1d_restored_losses: the restored learner has the same y-scale,
   the same loss table `losses` and -- the original having nothing pending --
   the same loss(real=True) as the original, after every legal history
   (scalar outputs, no NaN).  Still missing: losses_combined / ask of the
   restored learner (no pending points: losc = los by construction of the batch
   path, not proved here), vector outputs. *)
From Coq Require Import ZArith QArith Qcanon.
From AV Require Import Base.Prelude Model.AvgSpec Model.Seq Proofs.SeqProofs Proofs.OrderProofs
  Proofs.RoundtripProofs.
From AV Require Model.L1D Proofs.OrderL1D Proofs.L1DBracket Proofs.L1DCanonical Proofs.L1DRestore.
Local Open Scope nat_scope.

(* ---------------- SequenceLearner ---------------- *)
(* after every legal history that ends with nothing pending, a fresh learner
   filled by _set_data(_get_data()) is in the SAME state (to-do, pending, data) *)
Theorem C13_seq_roundtrip : forall (V : Type) (n : nat) (h : list (op V)),
  legal (init V n) h = true -> pend (reach V n h) = [] ->
  seq_set_data V (init V n) (seq_get_data V (reach V n h)) = reach V n h.
Proof. exact seq_roundtrip. Qed.

(* ---------------- averaging learner ---------------- *)
Theorem C13_avg_roundtrip : forall (num : Type) (zero : num) (s : AvgSpec.st num),
  AvgSpec.pend s = [] -> AvgSpec.set_data (AvgSpec.init zero) (AvgSpec.get_data s) = s.
Proof. exact avg_roundtrip. Qed.

Theorem C13_avg_roundtrip_fields : forall (num : Type) (zero : num) (s : AvgSpec.st num),
  let r := AvgSpec.set_data (AvgSpec.init zero) (AvgSpec.get_data s) in
  AvgSpec.data r = AvgSpec.data s /\ AvgSpec.npoints r = AvgSpec.npoints s /\
  AvgSpec.sum_f r = AvgSpec.sum_f s /\ AvgSpec.sum_f_sq r = AvgSpec.sum_f_sq s.
Proof. exact avg_roundtrip_fields. Qed.

(* ---------------- Learner1D ---------------- *)
Section L1D.
  Import L1D OrderL1D.
  Variable num : Type.
  Variables (add sub mul div : num -> num -> num) (ltb eqb : num -> num -> bool).
  Variables (zero one inf neg_inf : num) (is_nan is_inf : num -> bool) (round12 : num -> num).
  Variable of_nat : nat -> num.
  Variable Lf : list (option num) -> list (option (Y num)) -> num.
  Variable P : params num.

  Notation run := (@L1D.run num add sub mul div ltb eqb zero one inf neg_inf is_nan is_inf round12 of_nat Lf P).
  Notation init := (@L1D.init num sub zero inf neg_inf P).
  Notation set_data := (l1d_set_data num sub mul div ltb eqb zero one inf neg_inf is_nan is_inf round12 Lf P).

  (* for EVERY history (legal or not, pending points or not): telling the
     items of the data dictionary to a fresh learner -- through whichever path
     tell_many's default switch selects -- rebuilds the dictionary *)
  Theorem C13_l1d_data_roundtrip : OrdLaws ltb eqb is_nan ->
    forall h : list (op num),
    data (set_data init (l1d_get_data num (run init h))) = data (run init h).
  Proof. exact (l1d_data_roundtrip num add sub mul div ltb eqb zero one inf neg_inf is_nan is_inf round12 of_nat Lf P). Qed.

  (* load / copy_from with exact loss recomputation (factor 1): beyond the data,
     the restored learner has the original's y-scale, loss table and loss *)
  Theorem C13_l1d_restored_losses : OrdLaws ltb eqb is_nan ->
    L1DBracket.SubLaws sub ltb zero -> (forall x, mul (factor P) x = x) ->
    forall h : list (op num),
    L1DCanonical.clegal add sub mul div ltb eqb zero one inf neg_inf is_nan is_inf round12 of_nat Lf P init h = true ->
    let s := run init h in let r := set_data init (data s) in
    L1DCanonical.clegal add sub mul div ltb eqb zero one inf neg_inf is_nan is_inf round12 of_nat Lf P init [TellMany (data s) false] = true ->
    data r = data s /\ sy r = sy s /\ los r = los s /\
    (pend s = [] -> L1D.loss sub div ltb eqb inf is_nan is_inf round12 P r true =
                    L1D.loss sub div ltb eqb inf is_nan is_inf round12 P s true).
  Proof. exact (@L1DRestore.restored_losses num add sub mul div ltb eqb zero one inf neg_inf is_nan is_inf round12 of_nat Lf P). Qed.
End L1D.

Theorem C13_l1d_data_roundtrip_Qc : forall (Lf : list (option Qc) -> list (option (L1D.Y Qc)) -> Qc)
  (P : L1D.params Qc) (inf neg_inf : Qc) (round12 : Qc -> Qc) (of_nat : nat -> Qc) (h : list (L1D.op Qc)),
  let run := @L1D.run Qc Qcplus Qcminus Qcmult Qcdiv OrderL1D.Qc_ltb OrderL1D.Qc_eqb (Q2Qc 0) (Q2Qc 1) inf neg_inf
               (fun _ => false) (fun _ => false) round12 of_nat Lf P in
  let init := @L1D.init Qc Qcminus (Q2Qc 0) inf neg_inf P in
  L1D.data (OrderL1D.l1d_set_data Qc Qcminus Qcmult Qcdiv OrderL1D.Qc_ltb OrderL1D.Qc_eqb (Q2Qc 0) (Q2Qc 1) inf neg_inf
              (fun _ => false) (fun _ => false) round12 Lf P init (OrderL1D.l1d_get_data Qc (run init h)))
  = L1D.data (run init h).
Proof.
  intros Lf P inf neg_inf round12 of_nat h.
  exact (C13_l1d_data_roundtrip Qc Qcplus Qcminus Qcmult Qcdiv OrderL1D.Qc_ltb OrderL1D.Qc_eqb (Q2Qc 0) (Q2Qc 1)
           inf neg_inf (fun _ => false) (fun _ => false) round12 of_nat Lf P OrderL1D.OrdLaws_Qc h).
Qed.

(* ---------------- wrappers ---------------- *)
(* DataSaver: whatever its child preserves is preserved, extra_data verbatim *)
Theorem C13_datasaver_roundtrip : forall (C B D E : Type) (cget : C -> B) (cset : C -> B -> C)
  (cnew : C -> C) (cobs : C -> D) (good : C -> Prop),
  (forall c, good c -> cobs (cset (cnew c) (cget c)) = cobs c) ->
  forall (empty : E) (s : C * E), good (fst s) ->
  cobs (fst (ds_set cset (ds_new cnew empty s) (ds_get cget s))) = cobs (fst s) /\
  snd (ds_set cset (ds_new cnew empty s) (ds_get cget s)) = snd s.
Proof. exact datasaver_roundtrip. Qed.

(* BalancingLearner: per-child, no child skipped *)
Theorem C13_balancing_roundtrip : forall (C B D : Type) (cget : C -> B) (cset : C -> B -> C)
  (cnew : C -> C) (cobs : C -> D) (good : C -> Prop),
  (forall c, good c -> cobs (cset (cnew c) (cget c)) = cobs c) ->
  forall cs : list C, Forall good cs ->
  map cobs (bl_set cset (bl_new cnew cs) (bl_get cget cs)) = map cobs cs /\
  length (bl_set cset (bl_new cnew cs) (bl_get cget cs)) = length cs.
Proof.
  intros C B D cget cset cnew cobs good H cs Hg. split.
  - exact (balancing_roundtrip _ _ _ cget cset cnew cobs good H cs Hg).
  - exact (balancing_roundtrip_length _ _ cget cset cnew cs).
Qed.

(* ---------------- non-vacuity ---------------- *)
Example C13_seq_example :
  let h := [Ask 3 true; Tell 2 20; Tell 0 7; Ask 1 true; Tell 3 9; Tell 1 5] in
  let s := reach nat 6 h in
  legal (init nat 6) h = true /\ pend s = [] /\ todo s = [4; 5] /\
  seq_set_data nat (init nat 6) (seq_get_data nat s) = s.
Proof. vm_compute. repeat split. Qed.

Example C13_avg_example :
  let s := AvgSpec.tell_many Z.add Z.mul (AvgSpec.init 0%Z) [(4, 3%Z); (0, (-2)%Z); (1, 10%Z)] in
  AvgSpec.set_data (AvgSpec.init 0%Z) (AvgSpec.get_data s) = s /\ AvgSpec.sum_f_sq s = 113%Z.
Proof. vm_compute. repeat split. Qed.

(* Learner1D over the integers: five out-of-order tells (batch path on restore),
   data rebuilt; with factor = 1 here even the loss tables agree *)
Definition ex_L (xs : list (option Z)) (ys : list (option (L1D.Y Z))) : Z :=
  match xs, ys with
  | [Some a; Some b], [Some (L1D.YS u); Some (L1D.YS v)] => ((b - a) * (b - a) + (v - u) * (v - u))%Z
  | _, _ => 0%Z
  end.
Definition ex_P : L1D.params Z := L1D.mkparams 0%Z 64%Z 0%Z 0 1%Z.
Definition ex_run := @L1D.run Z Z.add Z.sub Z.mul Z.div Z.ltb Z.eqb 0%Z 1%Z 1000000%Z (-1000000)%Z
                       (fun _ => false) (fun _ => false) (fun x => x) Z.of_nat ex_L ex_P.
Definition ex_init := @L1D.init Z Z.sub 0%Z 1000000%Z (-1000000)%Z ex_P.
Definition ex_set := OrderL1D.l1d_set_data Z Z.sub Z.mul Z.div Z.ltb Z.eqb 0%Z 1%Z 1000000%Z (-1000000)%Z
                       (fun _ => false) (fun _ => false) (fun x => x) ex_L ex_P.

Example C13_l1d_example :
  let h := [L1D.Tell 64 (L1D.YS 1); L1D.Tell 16 (L1D.YS 3); L1D.TellPending 40; L1D.Tell 0 (L1D.YS 2);
            L1D.Tell 40 (L1D.YS (-5)); L1D.Tell 32 (L1D.YS 8)]%Z in
  let s := ex_run ex_init h in
  let r := ex_set ex_init (OrderL1D.l1d_get_data Z s) in
  L1D.data r = L1D.data s /\ length (L1D.data s) = 5 /\ L1D.pend s = [] /\
  L1D.los r = L1D.los s /\ L1D.losc r = L1D.losc s.
Proof. vm_compute. repeat split. Qed.

(* non-vacuity of C13_l1d_restored_losses: the example history is legal in the
   sense of the canonical-form theorem, and so is its restore *)
Example C13_l1d_restored_example :
  let h := [L1D.Tell 64 (L1D.YS 1); L1D.Tell 16 (L1D.YS 3); L1D.TellPending 40; L1D.Tell 0 (L1D.YS 2);
            L1D.Tell 40 (L1D.YS (-5)); L1D.Tell 32 (L1D.YS 8)]%Z in
  let cl := L1DCanonical.clegal Z.add Z.sub Z.mul Z.div Z.ltb Z.eqb 0%Z 1%Z 1000000%Z (-1000000)%Z
              (fun _ => false) (fun _ => false) (fun x => x) Z.of_nat ex_L ex_P in
  cl ex_init h = true /\ cl ex_init [L1D.TellMany (L1D.data (ex_run ex_init h)) false] = true.
Proof. vm_compute. split; reflexivity. Qed.

Print Assumptions C13_seq_roundtrip.
Print Assumptions C13_avg_roundtrip.
Print Assumptions C13_avg_roundtrip_fields.
Print Assumptions C13_l1d_data_roundtrip.
Print Assumptions C13_l1d_data_roundtrip_Qc.
Print Assumptions C13_l1d_restored_losses.
Print Assumptions C13_l1d_restored_example.
Print Assumptions C13_datasaver_roundtrip.
Print Assumptions C13_balancing_roundtrip.
