(* Properties C08 / C20 -- the quadrature constants of
   adaptive/learner/integrator_coeffs.py are what their definitions say.

   gen/Consts.v holds the values the code computed (floats as exact dyadic
   pairs, legendre(34) as exact rationals; regenerated from the working tree on
   every check).  Every theorem below is a statement about THOSE values over
   Q/Z; each is decided by computation inside Coq (vm_compute on a boolean
   check, Proofs/QuadConstsProofs.v) and is axiom-free.  This file contains only
   statements, each closed by [exact] of a lemma, and [Print Assumptions].

   Reading aid (all one-line definitions of Model/QuadConsts.v):
     dy2Q (m, e) = m * 2^e            the exact value of an exported float
     nn d = nth d ns 0                number of nodes at depth d
     node_raw d i = nth i (nth d xi []) (0,0),   node d i = dy2Q (node_raw d i)
     P k = nth k legendre34 []        coefficient list, lowest degree first
     coef p k = nth k p 0,  poly_eq p q = forall k, coef p k == coef q k
     vget v i = dy2Q (nth i v (0,0)),  mget M i j = vget (nth i M []) j
     padd psub pscale pmulx pmul pcomp pint   polynomial arithmetic on coefficient
                                      lists (see C08_poly_ops_sound), pint = int_{-1}^{1}
     two_pow_neg k = 2^-k, bound40 = 2^-40
     close_to_sqrt t c q delta = true   iff   |t - c sqrt q| < delta
                                      (C08_close_to_sqrt_sound, over R) *)
From Coq Require Import ZArith QArith Qabs List Reals Qreals.
From AVGen Require Import Consts.
From AV Require Import Model.QuadConsts Proofs.QuadConstsProofs.
Import ListNotations.
Local Open Scope Q_scope.

(* (a) the four node vectors have 5, 9, 17, 33 entries, are exactly
   antisymmetric with middle node exactly 0 and end points exactly -1, 1, are
   strictly increasing, and each is the even-indexed part of the next one,
   bit for bit *)
Theorem C08_nodes_nested_antisymmetric : forall d, (d < 4)%nat ->
  let n := nn d in
  length (nth d xi []) = n /\
  (forall i, (i < n)%nat -> node d i == - node d (n - 1 - i)) /\
  node d (n / 2) == 0 /\ node d 0 == -1 # 1 /\ node d (n - 1) == 1 /\
  (forall i, (S i < n)%nat -> node d i < node d (S i)) /\
  ((d < 3)%nat -> forall i, (i < n)%nat -> node_raw d i = node_raw (S d) (2 * i)).
Proof. exact nodes_nested_antisymmetric. Qed.

(* (b) legendre(34): P_0 = 1, P_1 = x, and Bonnet's recursion
   i P_i = (2i-1) x P_{i-1} - (i-1) P_{i-2}, as exact coefficient lists *)
Theorem C08_legendre_bonnet_34 :
  length legendre34 = 34%nat /\
  length (P 0) = 1%nat /\ poly_eq (P 0) [1] /\
  length (P 1) = 2%nat /\ poly_eq (P 1) [0; 1] /\
  forall i, (2 <= i < 34)%nat ->
    length (P i) = S i /\
    poly_eq (pscale (Qn i) (P i))
            (psub (pscale (Qn (2 * i - 1)) (pmulx (P (i - 1)))) (pscale (Qn (i - 1)) (P (i - 2)))).
Proof. exact legendre_bonnet_34. Qed.

(* int_{-1}^{1} P_n P_m dx = 2/(2n+1) if n = m and 0 otherwise *)
Theorem C08_legendre_orthogonal_34 : forall n m, (n < 34)%nat -> (m < 34)%nat ->
  pint (pmul (P n) (P m)) == if Nat.eqb n m then 2 # Pos.of_succ_nat (2 * n) else 0.
Proof. exact legendre_orthogonal_34. Qed.

(* (c) newton(n), n = 5, 9, 17, 33, has n+1 coefficients and is exactly
   (x^2 - 1) U_{n-2}(x) / 2^(n-2), U_k the Chebyshev polynomials of the second
   kind computed here by their recurrence: the monic polynomial whose roots
   are the Clenshaw-Curtis nodes -cos(i pi/(n-1)), i = 0..n-1 *)
Theorem C08_newton_exact : forall d, (d < 4)%nat ->
  length (nth d newton_c []) = S (nn d) /\
  poly_eq (map dy2Q (nth d newton_c []))
          (pscale (two_pow_neg (nn d - 2)) (pmul [-1 # 1; 0; 1] (chebU (nn d - 2)))).
Proof. exact newton_exact. Qed.

(* (d) every entry of V[d] . V_inv[d] - I is smaller than 2^-40 in absolute
   value (exact arithmetic on the float entries) *)
Theorem C08_V_Vinv_close : forall d, (d < 4)%nat ->
  let n := nn d in
  mat_dims (nth d V []) n n /\ mat_dims (nth d V_inv []) n n /\
  forall i j, (i < n)%nat -> (j < n)%nat ->
    Qabs (sumQ (fun k => mget (nth d V []) i k * mget (nth d V_inv []) k j) n - delta i j) < bound40.
Proof. exact V_Vinv_close. Qed.

(* V[d][i][j] is within 2^-40 of sqrt(j + 1/2) P_j(x_i): V is the orthonormal
   Legendre basis evaluated at the exported nodes *)
Theorem C08_V_is_legendre_basis : forall d, (d < 4)%nat ->
  let n := nn d in
  forall i j, (i < n)%nat -> (j < n)%nat ->
    close_to_sqrt (mget (nth d V []) i j) (pevalr (P j) (node d i)) (Z.of_nat (2 * j + 1) # 2) bound40 = true.
Proof. exact V_is_legendre_basis. Qed.

(* (e) T_left, T_right are within 2^-40, entrywise, of the exact matrix of
   f(x) |-> f((x - 1)/2) resp. f((x + 1)/2) in the orthonormal Legendre basis
   p_k = sqrt(k + 1/2) P_k:  T[i][j] ~ sqrt((2j+1)/(2i+1)) c_ij  where
   P_j((x + a)/2) = sum_i c_ij P_i(x).  The c_ij (shift_coeffs a j) are
   computed inside Coq from the exported P_k and the expansion is certified
   by the first conjunct. *)
Theorem C08_T_close :
  mat_dims T_left 33 33 /\ mat_dims T_right 33 33 /\
  forall j, (j < 33)%nat ->
    (let cs := shift_coeffs (-1 # 1) j in
     poly_eq (lincomb cs legendre34) (pcomp (P j) (shift_poly (-1 # 1))) /\
     forall i, (i < 33)%nat ->
       close_to_sqrt (mget T_left i j) (coef cs i) (Z.of_nat (2 * j + 1) # Pos.of_succ_nat (2 * i)) bound40 = true) /\
    (let cs := shift_coeffs 1 j in
     poly_eq (lincomb cs legendre34) (pcomp (P j) (shift_poly 1)) /\
     forall i, (i < 33)%nat ->
       close_to_sqrt (mget T_right i j) (coef cs i) (Z.of_nat (2 * j + 1) # Pos.of_succ_nat (2 * i)) bound40 = true).
Proof. exact T_close. Qed.

(* the certified expansion read pointwise: for every rational x,
   sum_i c_ij P_i(x) = P_j((x -+ 1)/2) *)
Theorem C08_T_expansion_pointwise : forall j, (j < 33)%nat -> forall x,
  fold_right Qplus 0 (map (fun cp => fst cp * peval (snd cp) x) (combine (shift_coeffs (-1 # 1) j) legendre34))
    == peval (P j) ((x + (-1 # 1)) / (2 # 1)) /\
  fold_right Qplus 0 (map (fun cp => fst cp * peval (snd cp) x) (combine (shift_coeffs 1 j) legendre34))
    == peval (P j) ((x + 1) / (2 # 1)).
Proof. exact T_expansion_pointwise. Qed.

(* (f) eps = 2^-52, min_sep = 16 eps, ndiv_max = 20, hint is the double
   nearest 0.1; alpha_k, gamma_k are within 2^-40 of
   sqrt((k+1)^2/((2k+1)(2k+3))) and of 0, 0, sqrt(k^2/(4k^2-1)) (k >= 2) *)
Theorem C08_scalars_alpha_gamma :
  dy2Q eps == two_pow_neg 52 /\ dy2Q min_sep == (16 # 1) * dy2Q eps /\ ndiv_max = 20%Z /\
  Qabs (dy2Q hint - (1 # 10)) < two_pow_neg 56 /\
  length alpha = 33%nat /\ length gamma = 33%nat /\
  forall k, (k < 33)%nat ->
    close_to_sqrt (vget alpha k) 1
      (Z.of_nat ((k + 1) * (k + 1)) # Pos.of_nat ((2 * k + 1) * (2 * k + 3))) bound40 = true /\
    close_to_sqrt (vget gamma k) 1
      (if (k <? 2)%nat then 0 else Z.of_nat (k * k) # Pos.of_nat (4 * k * k - 1)) bound40 = true.
Proof. exact scalars_ok. Qed.

(* the operations used in the statements above are the operations on
   polynomial functions and numbers their names say *)
Theorem C08_poly_ops_sound :
  (forall a b, qadd a b == a + b) /\ (forall a b, qmul a b == a * b) /\
  (forall a b, qsub a b == a - b) /\ (forall a b, qdiv a b == a / b) /\
  (forall p q x, peval (padd p q) x == peval p x + peval q x) /\
  (forall p q x, peval (psub p q) x == peval p x - peval q x) /\
  (forall c p x, peval (pscale c p) x == c * peval p x) /\
  (forall p x, peval (pmulx p) x == x * peval p x) /\
  (forall p q x, peval (pmul p q) x == peval p x * peval q x) /\
  (forall p q x, peval (pcomp p q) x == peval p (peval q x)) /\
  (forall p x, pevalr p x == peval p x) /\
  (forall p q x, poly_eq p q -> peval p x == peval q x) /\
  (forall m e, dy2Q (m, e) == inject_Z m * (2 # 1) ^ e) /\
  (forall k, two_pow_neg k == / (2 # 1) ^ Z.of_nat k).
Proof. exact poly_ops_sound. Qed.

(* the boolean closeness test means what it says, over the reals (this one
   theorem uses the axioms of the standard library's Reals) *)
Theorem C08_close_to_sqrt_sound : forall t c q d : Q,
  close_to_sqrt t c q d = true -> 0 <= q ->
  (Rabs (Q2R t - Q2R c * sqrt (Q2R q)) < Q2R d)%R.
Proof. exact close_to_sqrt_sound. Qed.

(* non-vacuity: the data is there and has the expected shape / values *)
Example C08consts_example :
  ns = [5; 9; 17; 33]%nat /\ nn 3 = 33%nat /\
  map (node 0) (seq 0 5) = [-1 # 1; -1592262918131443 # 2251799813685248; 0 # 1;
                            1592262918131443 # 2251799813685248; 1 # 1] /\
  P 2 = [-1 # 2; 0 # 1; 3 # 2] /\
  map dy2Q (nth 0 newton_c []) = [0 # 1; 1 # 2; 0 # 1; -3 # 2; 0 # 1; 1 # 1] /\
  chebU 3 = [0; -4 # 1; 0; 8 # 1] /\
  close_to_sqrt (3 # 2) 1 (2 # 1) (1 # 10) = true /\ close_to_sqrt (3 # 2) 1 (2 # 1) (1 # 100) = false.
Proof. vm_compute. repeat split. Qed.

Print Assumptions C08_nodes_nested_antisymmetric.
Print Assumptions C08_legendre_bonnet_34.
Print Assumptions C08_legendre_orthogonal_34.
Print Assumptions C08_newton_exact.
Print Assumptions C08_V_Vinv_close.
Print Assumptions C08_V_is_legendre_basis.
Print Assumptions C08_T_close.
Print Assumptions C08_T_expansion_pointwise.
Print Assumptions C08_scalars_alpha_gamma.
Print Assumptions C08_poly_ops_sound.
Print Assumptions C08_close_to_sqrt_sound.
