(* Property C09 -- Asking without committing leaves a learner unchanged;
   committing is the same ask.  Statements only (proofs in
   Proofs/BookkeepingProofs.v), for the two hand-written learner models:
   Model/Seq.v (SequenceLearner) and Model/L1D.v (Learner1D).  In both models
   the candidate computation is a pure function of the state, as in the code
   ([SequenceLearner.ask], [Learner1D._ask_points_without_adding]); that the
   real objects behave like these models on histories rich in non-committing
   asks is the correspondence run by harness/avh/props/c09.py, and the
   restore-based learners (LearnerND, IntegratorLearner, BalancingLearner) are
   decided by the twin oracle there. *)
From Coq Require Import ZArith.
From AV Require Import Base.Prelude Base.NatSet.
From AV Require Model.Seq Model.L1D Proofs.SeqProofs Proofs.BookkeepingProofs.
From AV Require Model.AvgNum Model.Avg Proofs.AvgProofs Proofs.BookkeepingAvg.
From AV Require Model.Avg1D Model.Avg1DPend Proofs.BookkeepingAvg1D.
Import BookkeepingProofs.

Section C09_seq.
  Variable V : Type.

  (* ask k false returns the state itself; hence every later history and every
     later answer is what it would have been without the call, and repeating
     the call returns the same indices *)
  Theorem C09_seq_noop : forall (s : Seq.st V) k,
    fst (Seq.ask s k false) = s /\
    (forall h, Seq.run (fst (Seq.ask s k false)) h = Seq.run s h) /\
    (forall k' c, Seq.ask (fst (Seq.ask s k false)) k' c = Seq.ask s k' c) /\
    snd (Seq.ask (fst (Seq.ask s k false)) k false) = snd (Seq.ask s k false).
  Proof. exact (@SeqBK.seq_ask_noop V). Qed.

  (* ask k true returns those very indices and is ask k false followed by
     tell_pending of each returned index, in order *)
  Theorem C09_seq_commit : forall (s : Seq.st V) k,
    snd (Seq.ask s k true) = snd (Seq.ask s k false) /\
    fst (Seq.ask s k true) =
      fold_left (@Seq.tell_pending V) (snd (Seq.ask s k false)) (fst (Seq.ask s k false)).
  Proof. exact (@SeqBK.seq_ask_commit V). Qed.
End C09_seq.

Section C09_l1d.
  Variable num : Type.
  Variables (add sub mul div : num -> num -> num).
  Variables (ltb eqb : num -> num -> bool).
  Variables (zero one inf neg_inf : num).
  Variable is_nan : num -> bool.
  Variable is_inf : num -> bool.
  Variable round12 : num -> num.
  Variable of_nat : nat -> num.
  Variable L : list (option num) -> list (option (L1D.Y num)) -> num.
  Variable P : L1D.params num.

  Notation ask := (@L1D.ask num add sub mul div ltb eqb zero one inf is_nan is_inf round12 of_nat L P).
  Notation run := (@L1D.run num add sub mul div ltb eqb zero one inf neg_inf is_nan is_inf round12 of_nat L P).
  Notation tell_pending := (@L1D.tell_pending num sub mul div ltb eqb zero one inf L P).

  Theorem C09_l1d_noop : forall (s : L1D.st num) n,
    fst (ask s n false) = s /\
    (forall h, run (fst (ask s n false)) h = run s h) /\
    (forall n' c, ask (fst (ask s n false)) n' c = ask s n' c) /\
    snd (ask (fst (ask s n false)) n false) = snd (ask s n false).
  Proof. exact (@L1DBK.l1d_ask_noop num add sub mul div ltb eqb zero one inf neg_inf is_nan is_inf round12 of_nat L P). Qed.

  (* the committing ask returns the same points and improvements and marks
     each returned point pending, in order *)
  Theorem C09_l1d_commit : forall (s : L1D.st num) n,
    snd (ask s n true) = snd (ask s n false) /\
    fst (ask s n true) = fold_left tell_pending (fst (snd (ask s n false))) (fst (ask s n false)).
  Proof. exact (@L1DBK.l1d_ask_commit num add sub mul div ltb eqb zero one inf is_nan is_inf round12 of_nat L P). Qed.
End C09_l1d.

(* ---------------------------------------------------------------------- *)
(* AverageLearner (Model/Avg.v, tied to the real class bit-exactly by the
   correspondences of C16 and of this check), every number structure, every
   configuration, EVERY state (no invariant needed).  [hint] is the order in
   which the code's fallback branch iterates its candidate set (recorded from
   the implementation; irrelevant when the next seeds are free). *)
Section C09_avg.
  Variable N : AvgNum.NumOps.
  Notation st := (Avg.st N).

  (* ask n false returns the state itself: data, pending set, both losses,
     every later step (hence every later answer) and the repeated call are
     what they would have been without the call *)
  Theorem C09_avg_noop : forall (c : Avg.cfg N) (s : st) n hint,
    fst (Avg.ask c s n false hint) = s /\
    (forall h, Avg.run c (fst (Avg.ask c s n false hint)) h = Avg.run c s h) /\
    (forall o, Avg.step c (fst (Avg.ask c s n false hint)) o = Avg.step c s o) /\
    (forall real, Avg.loss c (fst (Avg.ask c s n false hint)) real = Avg.loss c s real) /\
    snd (Avg.ask c (fst (Avg.ask c s n false hint)) n false hint) = snd (Avg.ask c s n false hint).
  Proof. exact (@BookkeepingAvg.avg_ask_noop N). Qed.

  (* ask n true returns those very points and improvement (or raises alike) and
     is ask n false followed by tell_pending of each returned seed, in order *)
  Theorem C09_avg_commit : forall (c : Avg.cfg N) (s : st) n hint,
    snd (Avg.ask c s n true hint) = snd (Avg.ask c s n false hint) /\
    fst (Avg.ask c s n true hint) =
      fold_left (@Avg.tell_pending N)
                (BookkeepingAvg.asked_points (snd (Avg.ask c s n false hint)))
                (fst (Avg.ask c s n false hint)).
  Proof. exact (@BookkeepingAvg.avg_ask_commit N). Qed.
End C09_avg.

(* ---------------------------------------------------------------------- *)
(* AverageLearner1D: Model/Avg1D.v (sample bookkeeping: samples, means, counts,
   errors, undersampled flags; tied to the real class by C16's correspondence)
   with the pending-point overlay Model/Avg1DPend.v (tied by this check's own
   correspondence).  _partial: loss() and the interval losses are not part of
   the model, so "both losses unchanged" is not claimed here (twin oracle). *)
Section C09_avg1d.
  Variable N : AvgNum.NumOps.
  Variable tppf : nat -> AvgNum.num N.
  Notation pst := (Avg1DPend.pst N).
  Notation pstep := (Avg1DPend.pstep tppf).
  Notation prun := (Avg1DPend.prun tppf).
  Notation PAsk := (@Avg1DPend.PAsk N).

  Theorem C09_avg1d_noop_partial : forall (c : Avg1D.cfg N) (s : pst) n hint,
    fst (pstep c s (PAsk n false hint)) = s /\
    (forall h, prun c (fst (pstep c s (PAsk n false hint))) h = prun c s h) /\
    (forall o, pstep c (fst (pstep c s (PAsk n false hint))) o = pstep c s o) /\
    snd (pstep c (fst (pstep c s (PAsk n false hint))) (PAsk n false hint)) = snd (pstep c s (PAsk n false hint)).
  Proof. exact (@BookkeepingAvg1D.a1d_ask_noop N tppf). Qed.

  Theorem C09_avg1d_commit_partial : forall (c : Avg1D.cfg N) (s : pst) n hint,
    snd (pstep c s (PAsk n true hint)) = snd (pstep c s (PAsk n false hint)) /\
    fst (pstep c s (PAsk n true hint)) =
      fold_left (@Avg1DPend.tell_pending N)
                (Avg1DPend.asked (snd (pstep c s (PAsk n false hint))))
                (fst (pstep c s (PAsk n false hint))).
  Proof. exact (@BookkeepingAvg1D.a1d_ask_commit N tppf). Qed.
End C09_avg1d.

(* non-vacuity: a sequence learner with a pending point and one result;
   a non-committing ask returns indices and changes nothing, the committing
   one returns the same indices and marks them pending *)
Example C09_example :
  let s := Seq.run (Seq.init nat 6) [Seq.Ask 2 true; Seq.Tell 1 7] in
  Seq.pend s = [0] /\ snd (Seq.ask s 3 false) = [2; 3; 4] /\
  fst (Seq.ask s 3 false) = s /\ snd (Seq.ask s 3 true) = [2; 3; 4] /\
  Seq.pend (fst (Seq.ask s 3 true)) = [0; 2; 3; 4].
Proof. vm_compute. repeat split. Qed.

(* non-vacuity (Avg over the integers): two results, seed 1 pending, seed 3
   told out of order -- the next seeds 3,4 collide with data, so the fallback
   branch answers; the non-committing ask changes nothing, the committing one
   returns the same seeds and marks them pending *)
Example C09_example_avg :
  let N := BookkeepingAvg.ZOps in
  let c := Avg.mkcfg N 1%Z 1%Z 2 true in
  let s := Avg.reach c [Avg.Tell N 0 5%Z; Avg.TellPending 1; Avg.Tell N 3 9%Z] in
  Avg.pend s = [1] /\
  BookkeepingAvg.asked_points (snd (Avg.ask c s 2 false [4; 2])) = [4; 2] /\
  Avg.pend (fst (Avg.ask c s 2 false [4; 2])) = [1] /\
  BookkeepingAvg.asked_points (snd (Avg.ask c s 2 true [4; 2])) = [4; 2] /\
  Avg.pend (fst (Avg.ask c s 2 true [4; 2])) = [1; 2; 4].
Proof. vm_compute. repeat split. Qed.

Print Assumptions C09_seq_noop.
Print Assumptions C09_seq_commit.
Print Assumptions C09_l1d_noop.
Print Assumptions C09_l1d_commit.
Print Assumptions C09_avg_noop.
Print Assumptions C09_avg_commit.
Print Assumptions C09_avg1d_noop_partial.
Print Assumptions C09_avg1d_commit_partial.
