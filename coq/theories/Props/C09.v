(* Property C09 -- Asking without committing leaves a learner unchanged;
   committing is the same ask.  Statements only (proofs in
   Proofs/BookkeepingProofs.v), for the two hand-written learner models:
   Model/Seq.v (SequenceLearner) and Model/L1D.v (Learner1D).  In both models
   the candidate computation is a pure function of the state, as in the code
   ([SequenceLearner.ask], [Learner1D._ask_points_without_adding]); that the
   real objects behave like these models on histories rich in non-committing
   asks is the correspondence run by harness/avh/props/c09.py, and the
   restore-based learners (LearnerND, IntegratorLearner, BalancingLearner) are
   decided by the twin oracle there. *)
From Coq Require Import ZArith.
From AV Require Import Base.Prelude Base.NatSet.
From AV Require Model.Seq Model.L1D Proofs.SeqProofs Proofs.BookkeepingProofs.
From AV Require Model.AvgNum Model.Avg Proofs.AvgProofs Proofs.BookkeepingAvg.
From AV Require Model.Avg1D Model.Avg1DPend Proofs.BookkeepingAvg1D.
From AV Require Model.GenericLearner Model.DataSaver Model.Balancing Proofs.BalancingCoh.
From AV Require Proofs.BookkeepingDataSaver Proofs.BookkeepingBalancing.
From AV Require Model.Integrator Proofs.IntegratorProofs Proofs.BookkeepingIntegrator.
From AV Require Model.Tri Model.LND Proofs.BookkeepingLND.
Import BookkeepingProofs.

Section C09_seq.
  Variable V : Type.

  (* ask k false returns the state itself; hence every later history and every
     later answer is what it would have been without the call, and repeating
     the call returns the same indices *)
  Theorem C09_seq_noop : forall (s : Seq.st V) k,
    fst (Seq.ask s k false) = s /\
    (forall h, Seq.run (fst (Seq.ask s k false)) h = Seq.run s h) /\
    (forall k' c, Seq.ask (fst (Seq.ask s k false)) k' c = Seq.ask s k' c) /\
    snd (Seq.ask (fst (Seq.ask s k false)) k false) = snd (Seq.ask s k false).
  Proof. exact (@SeqBK.seq_ask_noop V). Qed.

  (* ask k true returns those very indices and is ask k false followed by
     tell_pending of each returned index, in order *)
  Theorem C09_seq_commit : forall (s : Seq.st V) k,
    snd (Seq.ask s k true) = snd (Seq.ask s k false) /\
    fst (Seq.ask s k true) =
      fold_left (@Seq.tell_pending V) (snd (Seq.ask s k false)) (fst (Seq.ask s k false)).
  Proof. exact (@SeqBK.seq_ask_commit V). Qed.
End C09_seq.

Section C09_l1d.
  Variable num : Type.
  Variables (add sub mul div : num -> num -> num).
  Variables (ltb eqb : num -> num -> bool).
  Variables (zero one inf neg_inf : num).
  Variable is_nan : num -> bool.
  Variable is_inf : num -> bool.
  Variable round12 : num -> num.
  Variable of_nat : nat -> num.
  Variable L : list (option num) -> list (option (L1D.Y num)) -> num.
  Variable P : L1D.params num.

  Notation ask := (@L1D.ask num add sub mul div ltb eqb zero one inf is_nan is_inf round12 of_nat L P).
  Notation run := (@L1D.run num add sub mul div ltb eqb zero one inf neg_inf is_nan is_inf round12 of_nat L P).
  Notation tell_pending := (@L1D.tell_pending num sub mul div ltb eqb zero one inf L P).

  Theorem C09_l1d_noop : forall (s : L1D.st num) n,
    fst (ask s n false) = s /\
    (forall h, run (fst (ask s n false)) h = run s h) /\
    (forall n' c, ask (fst (ask s n false)) n' c = ask s n' c) /\
    snd (ask (fst (ask s n false)) n false) = snd (ask s n false).
  Proof. exact (@L1DBK.l1d_ask_noop num add sub mul div ltb eqb zero one inf neg_inf is_nan is_inf round12 of_nat L P). Qed.

  (* the committing ask returns the same points and improvements and marks
     each returned point pending, in order *)
  Theorem C09_l1d_commit : forall (s : L1D.st num) n,
    snd (ask s n true) = snd (ask s n false) /\
    fst (ask s n true) = fold_left tell_pending (fst (snd (ask s n false))) (fst (ask s n false)).
  Proof. exact (@L1DBK.l1d_ask_commit num add sub mul div ltb eqb zero one inf is_nan is_inf round12 of_nat L P). Qed.
End C09_l1d.

(* ---------------------------------------------------------------------- *)
(* AverageLearner (Model/Avg.v, tied to the real class bit-exactly by the
   correspondences of C16 and of this check), every number structure, every
   configuration, EVERY state (no invariant needed).  [hint] is the order in
   which the code's fallback branch iterates its candidate set (recorded from
   the implementation; irrelevant when the next seeds are free). *)
Section C09_avg.
  Variable N : AvgNum.NumOps.
  Notation st := (Avg.st N).

  (* ask n false returns the state itself: data, pending set, both losses,
     every later step (hence every later answer) and the repeated call are
     what they would have been without the call *)
  Theorem C09_avg_noop : forall (c : Avg.cfg N) (s : st) n hint,
    fst (Avg.ask c s n false hint) = s /\
    (forall h, Avg.run c (fst (Avg.ask c s n false hint)) h = Avg.run c s h) /\
    (forall o, Avg.step c (fst (Avg.ask c s n false hint)) o = Avg.step c s o) /\
    (forall real, Avg.loss c (fst (Avg.ask c s n false hint)) real = Avg.loss c s real) /\
    snd (Avg.ask c (fst (Avg.ask c s n false hint)) n false hint) = snd (Avg.ask c s n false hint).
  Proof. exact (@BookkeepingAvg.avg_ask_noop N). Qed.

  (* ask n true returns those very points and improvement (or raises alike) and
     is ask n false followed by tell_pending of each returned seed, in order *)
  Theorem C09_avg_commit : forall (c : Avg.cfg N) (s : st) n hint,
    snd (Avg.ask c s n true hint) = snd (Avg.ask c s n false hint) /\
    fst (Avg.ask c s n true hint) =
      fold_left (@Avg.tell_pending N)
                (BookkeepingAvg.asked_points (snd (Avg.ask c s n false hint)))
                (fst (Avg.ask c s n false hint)).
  Proof. exact (@BookkeepingAvg.avg_ask_commit N). Qed.
End C09_avg.

(* ---------------------------------------------------------------------- *)
(* AverageLearner1D: Model/Avg1D.v (sample bookkeeping: samples, means, counts,
   errors, undersampled flags; tied to the real class by C16's correspondence)
   with the pending-point overlay Model/Avg1DPend.v (tied by this check's own
   correspondence).  _partial: loss() and the interval losses are not part of
   the model, so "both losses unchanged" is not claimed here (twin oracle). *)
Section C09_avg1d.
  Variable N : AvgNum.NumOps.
  Variable tppf : nat -> AvgNum.num N.
  Notation pst := (Avg1DPend.pst N).
  Notation pstep := (Avg1DPend.pstep tppf).
  Notation prun := (Avg1DPend.prun tppf).
  Notation PAsk := (@Avg1DPend.PAsk N).

  Theorem C09_avg1d_noop_partial : forall (c : Avg1D.cfg N) (s : pst) n hint,
    fst (pstep c s (PAsk n false hint)) = s /\
    (forall h, prun c (fst (pstep c s (PAsk n false hint))) h = prun c s h) /\
    (forall o, pstep c (fst (pstep c s (PAsk n false hint))) o = pstep c s o) /\
    snd (pstep c (fst (pstep c s (PAsk n false hint))) (PAsk n false hint)) = snd (pstep c s (PAsk n false hint)).
  Proof. exact (@BookkeepingAvg1D.a1d_ask_noop N tppf). Qed.

  Theorem C09_avg1d_commit_partial : forall (c : Avg1D.cfg N) (s : pst) n hint,
    snd (pstep c s (PAsk n true hint)) = snd (pstep c s (PAsk n false hint)) /\
    fst (pstep c s (PAsk n true hint)) =
      fold_left (@Avg1DPend.tell_pending N)
                (Avg1DPend.asked (snd (pstep c s (PAsk n false hint))))
                (fst (pstep c s (PAsk n false hint))).
  Proof. exact (@BookkeepingAvg1D.a1d_ask_commit N tppf). Qed.
End C09_avg1d.

(* ---------------------------------------------------------------------- *)
(* DataSaver (Model/DataSaver.v, tied to the real class by C18's
   correspondence) over an ARBITRARY wrapped learner [L]: C09 of the wrapper
   from C09 of the child at the child's current state. *)
Section C09_ds.
  Variable L : GenericLearner.Learner.
  Variable R : Type.
  Variable pick : R -> GenericLearner.value L.
  Notation dst := (DataSaver.dst L R).

  Theorem C09_ds_noop : forall (s : dst) n,
    snd (GenericLearner.ask L (DataSaver.child s) n false) = DataSaver.child s ->
    snd (DataSaver.ask s n false) = s /\
    fst (DataSaver.ask s n false) = fst (GenericLearner.ask L (DataSaver.child s) n false) /\
    (forall h, DataSaver.run pick (snd (DataSaver.ask s n false)) h = DataSaver.run pick s h) /\
    (forall real, DataSaver.loss (snd (DataSaver.ask s n false)) real = DataSaver.loss s real) /\
    fst (DataSaver.ask (snd (DataSaver.ask s n false)) n false) = fst (DataSaver.ask s n false).
  Proof. exact (@BookkeepingDataSaver.ds_ask_noop L R pick). Qed.

  Theorem C09_ds_commit : forall (s : dst) n,
    fst (GenericLearner.ask L (DataSaver.child s) n true) = fst (GenericLearner.ask L (DataSaver.child s) n false) ->
    snd (GenericLearner.ask L (DataSaver.child s) n true) =
      fold_left (GenericLearner.tell_pending L) (fst (fst (GenericLearner.ask L (DataSaver.child s) n false)))
                (snd (GenericLearner.ask L (DataSaver.child s) n false)) ->
    fst (DataSaver.ask s n true) = fst (DataSaver.ask s n false) /\
    snd (DataSaver.ask s n true) =
      fold_left (@DataSaver.tell_pending L R) (fst (fst (DataSaver.ask s n false))) (snd (DataSaver.ask s n false)).
  Proof. exact (@BookkeepingDataSaver.ds_ask_commit L R). Qed.
End C09_ds.

(* ---------------------------------------------------------------------- *)
(* BalancingLearner (Model/Balancing.v, tied by C15's correspondence) over
   arbitrary children.  [bask_nc] is the model of the restore-based
   non-committing ask of the code since /repo commit 5fc0973 (children deep-
   copied and put back, the three caches and the cycle position put back): it
   returns the answer of the committing computation and the state it was
   given -- C09_bal_noop is true BY CONSTRUCTION of that definition and says
   nothing about the completeness of the real restore (twin oracle).
   C09_bal_commit_partial has content: given the children's own C09 for one
   point and idempotent tell_pending, ask(n, True) leaves every child -- hence
   data, pending points, npoints and, on cache-coherent states of the repaired
   model, both losses -- exactly as ask(n, False) + tell_pending(each) does.
   _partial: the wrapper's private caches and the 'cycle' position differ, so
   equality of later answers is not claimed. *)
Section C09_bal.
  Variable L : GenericLearner.Learner.
  Notation bst := (Balancing.bst L).
  Notation bask_nc := (BookkeepingBalancing.bask_nc L).
  Notation mark_all := (BookkeepingBalancing.mark_all L).

  Theorem C09_bal_noop : forall rep (s : bst) n,
    fst (bask_nc rep s n) = s /\
    (forall h, Balancing.run rep (fst (bask_nc rep s n)) h = Balancing.run rep s h) /\
    snd (bask_nc rep (fst (bask_nc rep s n)) n) = snd (bask_nc rep s n) /\
    snd (bask_nc rep s n) = snd (Balancing.bask rep s n true).
  Proof. exact (@BookkeepingBalancing.bal_ask_noop L). Qed.

  Hypothesis child_ask_pure : forall k : GenericLearner.state L, snd (GenericLearner.ask L k 1 false) = k.
  Hypothesis child_commit : forall k : GenericLearner.state L,
    fst (GenericLearner.ask L k 1 true) = fst (GenericLearner.ask L k 1 false) /\
    snd (GenericLearner.ask L k 1 true) = match fst (fst (GenericLearner.ask L k 1 false)) with
                                          | p :: _ => GenericLearner.tell_pending L k p
                                          | [] => k
                                          end.
  Hypothesis child_tell_pending_idem : forall (k : GenericLearner.state L) p,
    GenericLearner.tell_pending L (GenericLearner.tell_pending L k p) p = GenericLearner.tell_pending L k p.

  Theorem C09_bal_commit_partial : forall rep (s : bst) n,
    Balancing.failed (fst (Balancing.bask rep s n true)) = false ->
    let a := fst (Balancing.bask rep s n true) in
    let b := mark_all rep (snd (bask_nc rep s n)) (fst (bask_nc rep s n)) in
    snd (Balancing.bask rep s n true) = snd (bask_nc rep s n) /\
    Balancing.kids a = Balancing.kids b /\
    Balancing.bdata a = Balancing.bdata b /\ Balancing.bpending a = Balancing.bpending b /\
    Balancing.bnpoints a = Balancing.bnpoints b.
  Proof.
    intros rep s n Hf.
    destruct (BookkeepingBalancing.bal_ask_commit_kids L child_ask_pure child_commit child_tell_pending_idem rep s n Hf) as [H1 H2].
    destruct (BookkeepingBalancing.bal_ask_commit_observables L child_ask_pure child_commit child_tell_pending_idem rep s n Hf) as [H3 [H4 H5]].
    cbv zeta. auto.
  Qed.

  Theorem C09_bal_commit_losses_partial : forall (s : bst) n real,
    BalancingCoh.Coh s -> Balancing.failed (fst (Balancing.bask true s n true)) = false ->
    snd (Balancing.bloss (fst (Balancing.bask true s n true)) real) =
    snd (Balancing.bloss (mark_all true (snd (bask_nc true s n)) (fst (bask_nc true s n))) real).
  Proof. exact (BookkeepingBalancing.bal_ask_commit_losses L child_ask_pure child_commit child_tell_pending_idem). Qed.
End C09_bal.

(* the hypotheses on the children are satisfiable (toy learner of Model/GenericLearner.v) *)
Theorem C09_bal_child_hyps_inhabited :
  (forall k : GenericLearner.state GenericLearner.Toy.learner,
     snd (GenericLearner.ask GenericLearner.Toy.learner k 1 false) = k) /\
  (forall k : GenericLearner.state GenericLearner.Toy.learner,
     fst (GenericLearner.ask GenericLearner.Toy.learner k 1 true) = fst (GenericLearner.ask GenericLearner.Toy.learner k 1 false) /\
     snd (GenericLearner.ask GenericLearner.Toy.learner k 1 true) =
       match fst (fst (GenericLearner.ask GenericLearner.Toy.learner k 1 false)) with
       | p :: _ => GenericLearner.tell_pending GenericLearner.Toy.learner k p
       | [] => k
       end) /\
  (forall (k : GenericLearner.state GenericLearner.Toy.learner) (p : GenericLearner.point GenericLearner.Toy.learner),
     GenericLearner.tell_pending GenericLearner.Toy.learner (GenericLearner.tell_pending GenericLearner.Toy.learner k p) p =
     GenericLearner.tell_pending GenericLearner.Toy.learner k p).
Proof. exact BookkeepingBalancing.toy_child_hyps. Qed.

(* ---------------------------------------------------------------------- *)
(* IntegratorLearner (Model/Integrator.v: the bookkeeping; numerics are answers
   of the environment; tied to the real class by C07's correspondence and, for
   non-committing asks, by this check's own).  [ask_nc] is the model of
   "with restore(self): return self._ask_and_tell_pending(n)" (code since /repo
   commit 5fc0973): the output of the committing ask, the state handed back.
   C09_int_noop is true BY CONSTRUCTION of that definition: it does not say the
   real snapshot is complete, and nothing about summation order (C09:F28).
   The integrator has no tell_pending(point): the commit clause reads "the
   returned points are new and pending (until told)". *)
Section C09_int.
  Variable X : Type.
  Variable eqb : X -> X -> bool.
  Variable points : X -> X -> nat -> list X.
  Variable repaired : bool.
  Variable dflt : X.
  Hypothesis eqb_spec : forall x y, eqb x y = true <-> x = y.
  Notation step := (Integrator.step eqb points repaired dflt).
  Notation run := (Integrator.run eqb points repaired dflt).
  Notation init := (Integrator.init eqb points repaired dflt).
  Notation ask_nc := (BookkeepingIntegrator.ask_nc X eqb points repaired dflt).

  Theorem C09_int_noop : forall (s : Integrator.st X) n cs,
    fst (ask_nc s n cs) = s /\
    (forall h, run (fst (ask_nc s n cs)) h = run s h) /\
    snd (ask_nc (fst (ask_nc s n cs)) n cs) = snd (ask_nc s n cs) /\
    snd (ask_nc s n cs) = snd (step s (Integrator.Ask n cs)).
  Proof. exact (@BookkeepingIntegrator.int_ask_noop X eqb points repaired dflt). Qed.

  (* every history, every oracle answer: a point returned by a committing ask was
     never handed out before and, unless its value arrived while it was still
     queued, is pending afterwards *)
  Theorem C09_int_commit_partial : forall lo hi maxiv (h : list (Integrator.op X)) n cs x,
    let s := run (init lo hi maxiv) h in
    In x (fst (snd (step s (Integrator.Ask n cs)))) ->
    ~ In x (Integrator.handed (Integrator.outs eqb points repaired dflt (init lo hi maxiv) h)) /\
    (~ In x (BookkeepingIntegrator.tolds X h) -> In x (Integrator.pending (fst (step s (Integrator.Ask n cs))))).
  Proof. exact (@BookkeepingIntegrator.int_ask_commit X eqb points repaired dflt eqb_spec). Qed.
End C09_int.

(* ---------------------------------------------------------------------- *)
(* LearnerND (Model/LND.v over Model/Tri.v: bookkeeping with every geometric
   and numeric decision an oracle answer of the operation; tied to the real
   class by C04's correspondence).  [ask_nc] models "with restore(self):
   return self._ask_and_tell_pending(n)": C09_lnd_noop is true BY CONSTRUCTION
   of that definition (the real snapshot is examined by the twin oracle).
   C09_lnd_commit_partial: data and the pending SET after ask(n, True) equal
   those after ask(n, False) + tell_pending(each), for returned points inside
   the bounds.  Not claimed (and false of the code, finding C09:F29): equality
   of the simplex queue / of later answers -- the committing ask consumes
   queue entries that the other path leaves behind as outdated entries. *)
Section C09_lnd.
  Variable L : Type.
  Variables (lmul ldiv : L -> L -> L) (labs : L -> L) (linf : L).
  Variable rnd : L -> Z.
  Variable d : nat.
  Variable corners : list nat.
  Variables repaired fix12 : bool.
  Notation step := (LND.step lmul ldiv labs linf rnd d corners repaired fix12).
  Notation run := (LND.run lmul ldiv labs linf rnd d corners repaired fix12).
  Notation ask_nc := (BookkeepingLND.ask_nc L lmul ldiv labs linf rnd d corners repaired fix12).

  Theorem C09_lnd_noop : forall (s : LND.lnd L) n E,
    fst (ask_nc s n E) = s /\
    (forall h, run (fst (ask_nc s n E)) h = run s h) /\
    snd (ask_nc (fst (ask_nc s n E)) n E) = snd (ask_nc s n E) /\
    snd (ask_nc s n E) = snd (step s (LND.Ask n E)).
  Proof. exact (BookkeepingLND.lnd_ask_noop L lmul ldiv labs linf rnd d corners repaired fix12). Qed.

  Theorem C09_lnd_commit_partial : forall (s : LND.lnd L) n E s' pts (pes : list (nat * LND.env L)),
    step s (LND.Ask n E) = (s', LND.ORet pts) -> map fst pes = map fst pts ->
    (forall x, In x (map fst pts) -> LND.e_inb E x = true) ->
    (forall x E', In (x, E') pes -> LND.e_inb E' x = true) ->
    snd (ask_nc s n E) = LND.ORet pts /\
    LND.l_data s' = LND.l_data (run (fst (ask_nc s n E)) (BookkeepingLND.mark_ops L pes)) /\
    (forall x, In x (LND.l_pend s') <-> In x (LND.l_pend (run (fst (ask_nc s n E)) (BookkeepingLND.mark_ops L pes)))).
  Proof. exact (BookkeepingLND.lnd_ask_commit_dp_partial L lmul ldiv labs linf rnd (fun _ _ => true) d corners repaired fix12). Qed.
End C09_lnd.

(* non-vacuity: a sequence learner with a pending point and one result;
   a non-committing ask returns indices and changes nothing, the committing
   one returns the same indices and marks them pending *)
Example C09_example :
  let s := Seq.run (Seq.init nat 6) [Seq.Ask 2 true; Seq.Tell 1 7] in
  Seq.pend s = [0] /\ snd (Seq.ask s 3 false) = [2; 3; 4] /\
  fst (Seq.ask s 3 false) = s /\ snd (Seq.ask s 3 true) = [2; 3; 4] /\
  Seq.pend (fst (Seq.ask s 3 true)) = [0; 2; 3; 4].
Proof. vm_compute. repeat split. Qed.

(* non-vacuity (Avg over the integers): two results, seed 1 pending, seed 3
   told out of order -- the next seeds 3,4 collide with data, so the fallback
   branch answers; the non-committing ask changes nothing, the committing one
   returns the same seeds and marks them pending *)
Example C09_example_avg :
  let N := BookkeepingAvg.ZOps in
  let c := Avg.mkcfg N 1%Z 1%Z 2 true in
  let s := Avg.reach c [Avg.Tell N 0 5%Z; Avg.TellPending 1; Avg.Tell N 3 9%Z] in
  Avg.pend s = [1] /\
  BookkeepingAvg.asked_points (snd (Avg.ask c s 2 false [4; 2])) = [4; 2] /\
  Avg.pend (fst (Avg.ask c s 2 false [4; 2])) = [1] /\
  BookkeepingAvg.asked_points (snd (Avg.ask c s 2 true [4; 2])) = [4; 2] /\
  Avg.pend (fst (Avg.ask c s 2 true [4; 2])) = [1; 2; 4].
Proof. vm_compute. repeat split. Qed.

(* non-vacuity (Balancing over two toy children, 'npoints' strategy, repaired
   model): after a committing ask and a tell, ask(3, True) and ask(3, False) +
   tell_pending(each) give the same answer and the same children *)
Example C09_example_bal :
  let TL := GenericLearner.Toy.learner in
  let s := Balancing.run true (Balancing.init TL [GenericLearner.Toy.init; GenericLearner.Toy.init] Balancing.SNpoints)
             [Balancing.Ask 2 true; @Balancing.Tell TL 0 0 7] in
  let a := fst (Balancing.bask true s 3 true) in
  let b := BookkeepingBalancing.mark_all TL true (snd (BookkeepingBalancing.bask_nc TL true s 3))
                                         (fst (BookkeepingBalancing.bask_nc TL true s 3)) in
  Balancing.failed a = false /\ map fst (snd (Balancing.bask true s 3 true)) = [(0, 1); (1, 1); (0, 2)] /\
  Balancing.bpending a = [(0, 1); (0, 2); (1, 0); (1, 1)] /\ Balancing.bpending b = Balancing.bpending a.
Proof. vm_compute. repeat split. Qed.

(* non-vacuity (Integrator over naturals): ask(3) hands out the first three
   queued abscissae, which are pending; the non-committing variant gives the
   same answer *)
Example C09_example_int :
  let stp := Integrator.step Nat.eqb BookkeepingIntegrator.ex_pts true 0 in
  let s0 := Integrator.init Nat.eqb BookkeepingIntegrator.ex_pts true 0 0 4096 1000 in
  snd (stp s0 (Integrator.Ask 3 [])) = ([0; 256; 512], Integrator.ENone) /\
  snd (BookkeepingIntegrator.ask_nc nat Nat.eqb BookkeepingIntegrator.ex_pts true 0 s0 3 []) = ([0; 256; 512], Integrator.ENone) /\
  Integrator.stack (fst (stp s0 (Integrator.Ask 3 []))) = skipn 3 (Integrator.stack s0) /\
  firstn 3 (Integrator.pending (fst (stp s0 (Integrator.Ask 3 [])))) = [0; 256; 512].
Proof. vm_compute. repeat split. Qed.

Print Assumptions C09_seq_noop.
Print Assumptions C09_seq_commit.
Print Assumptions C09_l1d_noop.
Print Assumptions C09_l1d_commit.
Print Assumptions C09_avg_noop.
Print Assumptions C09_avg_commit.
Print Assumptions C09_avg1d_noop_partial.
Print Assumptions C09_avg1d_commit_partial.
Print Assumptions C09_ds_noop.
Print Assumptions C09_ds_commit.
Print Assumptions C09_bal_noop.
Print Assumptions C09_bal_commit_partial.
Print Assumptions C09_bal_commit_losses_partial.
Print Assumptions C09_bal_child_hyps_inhabited.
Print Assumptions C09_int_noop.
Print Assumptions C09_int_commit_partial.
Print Assumptions C09_lnd_noop.
Print Assumptions C09_lnd_commit_partial.
