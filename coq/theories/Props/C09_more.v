(* Property C09, corollaries for the models written by other builders
   (Model/Avg.v, Model/DataSaver.v, Model/Balancing.v).  Kept apart from
   Props/C09.v so that a change of those models cannot break the C09 check;
   not part of the obligations audited by harness/avh/props/c09.py. *)
From Coq Require Import ZArith.
From AV Require Import Base.Prelude Base.NatSet.
From AV Require Model.AvgNum Model.Avg Model.GenericLearner Model.DataSaver Model.Balancing.

(* ---------------- AverageLearner: the candidate computation is pure ---------------- *)
Section C09_avg.
  Variable N : AvgNum.NumOps.

  Theorem C09_avg_noop : forall (c : Avg.cfg N) (s : Avg.st N) n hint,
    fst (Avg.ask c s n false hint) = s.
  Proof.
    intros c s n hint. unfold Avg.ask.
    destruct n; [reflexivity|]. destruct (Avg.loss_improvement c s (S n)); reflexivity.
  Qed.

  Theorem C09_avg_commit : forall (c : Avg.cfg N) (s : Avg.st N) n hint,
    snd (Avg.ask c s n true hint) = snd (Avg.ask c s n false hint) /\
    (forall pts imp, snd (Avg.ask c s n false hint) = Avg.Asked N pts imp ->
       fst (Avg.ask c s n true hint) = fold_left (@Avg.tell_pending N) pts s).
  Proof.
    intros c s n hint. unfold Avg.ask.
    destruct n.
    { split; [reflexivity|]. intros pts imp H. cbn [snd fst] in *. inversion H; subst.
      unfold Avg.ask_points. cbn [seq existsb fold_left]. reflexivity. }
    destruct (Avg.loss_improvement c s (S n)); (split; [reflexivity|]); [|discriminate].
    intros pts imp H. cbn [snd fst] in *. inversion H; subst. reflexivity.
  Qed.
End C09_avg.

(* ---------------- DataSaver: transparent for ask ---------------- *)
Section C09_datasaver.
  Variable L : GenericLearner.Learner.
  Variable R : Type.
  Variable pick : R -> GenericLearner.value L.

  (* whatever the wrapped learner's ask does to its state, DataSaver.ask does
     exactly that to the child and nothing to extra_data; in particular a
     child whose non-committing ask is a no-op gives a no-op *)
  Theorem C09_datasaver_transparent : forall (s : DataSaver.dst L R) n commit,
    fst (DataSaver.ask s n commit) = fst (GenericLearner.ask L (DataSaver.child s) n commit) /\
    DataSaver.child (snd (DataSaver.ask s n commit)) = snd (GenericLearner.ask L (DataSaver.child s) n commit) /\
    DataSaver.extra (snd (DataSaver.ask s n commit)) = DataSaver.extra s.
  Proof.
    intros s n commit. unfold DataSaver.ask.
    destruct (GenericLearner.ask L (DataSaver.child s) n commit) as [a k]. repeat split.
  Qed.

  Theorem C09_datasaver_noop :
    (forall k n, snd (GenericLearner.ask L k n false) = k) ->
    forall (s : DataSaver.dst L R) n, snd (DataSaver.ask s n false) = s.
  Proof.
    intros H s n. unfold DataSaver.ask. specialize (H (DataSaver.child s) n).
    destruct (GenericLearner.ask L (DataSaver.child s) n false) as [a k]. cbn [snd] in *. subst k.
    destruct s; reflexivity.
  Qed.
End C09_datasaver.

(* ---------------- BalancingLearner: the faithful model REFUTES the no-op claim ---------------- *)
(* Witnesses on the toy child of Model/GenericLearner.v, whose [restore] -- like
   Learner1D/Learner2D/SequenceLearner/AverageLearner.__getstate__ -- does not
   carry the pending points (finding F3), and on the balancing model's own
   caches / cycle position, which ask(tell_pending=False) does not put back
   (finding F3b).  The same histories on the real classes are corpus/C09/F3*.json. *)
Definition toyB (st : Balancing.strategy) :=
  Balancing.init GenericLearner.Toy.learner [GenericLearner.Toy.init; GenericLearner.Toy.init] st.

Theorem C09_balancing_noop_refuted_pending :
  let s1 := fst (Balancing.bask false (toyB Balancing.SNpoints) 2 true) in
  Balancing.bpending s1 <> [] /\
  Balancing.bpending (fst (Balancing.bask false s1 2 false)) = [].
Proof. vm_compute. split; [discriminate|reflexivity]. Qed.

Theorem C09_balancing_noop_refuted_cycle :
  let s := toyB Balancing.SCycle in
  Balancing.cyc (fst (Balancing.bask false s 1 false)) <> Balancing.cyc s /\
  map fst (snd (Balancing.bask false (fst (Balancing.bask false s 1 false)) 1 false)) <>
  map fst (snd (Balancing.bask false s 1 false)).
Proof. vm_compute. split; discriminate. Qed.

Print Assumptions C09_avg_noop.
Print Assumptions C09_avg_commit.
Print Assumptions C09_datasaver_transparent.
Print Assumptions C09_datasaver_noop.
Print Assumptions C09_balancing_noop_refuted_pending.
Print Assumptions C09_balancing_noop_refuted_cycle.
