(* Property C03 -- Triangulation: the simplices always tile the convex hull.
   Statements only; proofs are in Proofs/TriProofs.v.

   Level: PARTIAL.  What is proved here, for every insertion sequence and for
   EVERY outcome of the geometric predicates (they are oracle answers carried by
   the operations: point_in_cicumcircle, the orientation pair of _extend_hull,
   _simplex_is_almost_flat, get_reduced_simplex, locate_point), is the
   combinatorial half of the property:
     - vertex_to_simplices and simplices agree            (C03_index_consistent)
     - an accepted insertion reports exactly what it removed and created,
       also on the hull-extension path with temporary simplices (C03_report_exact)
     - a rejected insertion leaves the triangulation unchanged (C03_reject_unchanged)
     - every created simplex contains the new vertex      (C03_every_new_simplex_has_pt)
     - the vertex list grows by exactly the accepted point (C03_vertices_appended_once)
     - simplices stay sorted duplicate-free tuples          (C03_simplices_sorted_nodup)
     - for a point inserted inside the hull, a facet WITH the new vertex is in at
       most as many simplices as the ridge under it has faces of the cavity
       boundary; hence a cavity whose boundary is a closed pseudo-manifold keeps
       the hull property for every facet (C03_closed_cavity_keeps_hull_property);
       on both paths a pseudo-manifold link of the new vertex does
       (C03_link_manifold_keeps_hull_property)
     - a facet that does not contain the vertex being inserted is in at most two
       simplices afterwards if it was before; so when a triangulation with the hull
       property gets a facet into three or more simplices, that facet contains the
       NEW vertex (C03_old_facets_stay_le2, C03_first_overlap_at_new_vertex): the
       pseudo-manifold clause can only break at the cavity of the point just
       inserted, for every outcome of every predicate.  C03_facets_need_geometry
       shows that this is sharp: with adversarial predicate answers (a cavity that
       is pinched at a vertex) a facet at the new vertex does get into four
       simplices, so the rest of the clause is geometry.
   NOT proved (C03_tiling_partial): "every facet belongs to at most two
   simplices, the volumes add up to the hull volume up to the sliver tolerance,
   Delaunay in the metric for points in general position".  This is a geometric
   theorem about Bowyer-Watson (star-shaped cavity, local-to-global Delaunay
   lemma) which in floating point only holds up to the 1e-8 tolerances; it is
   decided per run by the exact-rational oracle of harness/avh/props/c03.py.

   Full statement kept for reference:
     forall dims 2..4, point sequences, hints, diagonal transforms,
       let T := triangulation after the sequence in
       ref_inv T /\ (forall facet, multiplicity facet T <= 2) /\
       (forall v, exists s in T, v in s) /\
       |sum_{s in T} vol s - vol (conv (vertices T))| <= sliver_tolerance /\
       (general_position (vertices T) -> Delaunay metric T) /\ report exact /\ reject unchanged. *)
From AV Require Import Base.Prelude Base.NatSet Model.Tri Proofs.TriProofs Proofs.TriFacets.

Section C03.
  Variable P : Type.   (* vertex coordinates: abstract, the bookkeeping never looks at them *)
  Variable d : nat.    (* dimension *)

  (* vertex_to_simplices and simplices agree (Triangulation.reference_invariant),
     vertex indices are in range, after any legal history from any well-formed
     initial triangulation, for every outcome of every predicate *)
  Theorem C03_index_consistent : forall (vs : list P) ss (h : list (op P)),
    wf_init vs ss -> legal d (init vs ss) h = true ->
    let t := reach d vs ss h in
    (forall v s, In s (nth v (v2s t) []) <-> In s (simplices t) /\ In v s) /\
    (forall s v, In s (simplices t) -> In v s -> v < nverts t) /\
    nverts t <= length (v2s t).
  Proof.
    intros vs ss h Hw Hl t. destruct (@index_consistent P d vs ss h Hw Hl) as [H1 H2 H3].
    exact (conj H1 (conj H2 H3)).
  Qed.

  (* an accepted insertion returns exactly (S_before \ S_after, S_after \ S_before) *)
  Theorem C03_report_exact : forall (vs : list P) ss (h : list (op P)) p hint o,
    wf_init vs ss -> legal d (init vs ss) (h ++ [AddPoint p hint o]) = true ->
    let t := reach d vs ss h in forall del add,
    snd (add_point d t p hint o) = Accepted del add ->
    (forall s, In s del <-> In s (simplices t) /\ ~ In s (simplices (fst (add_point d t p hint o)))) /\
    (forall s, In s add <-> In s (simplices (fst (add_point d t p hint o))) /\ ~ In s (simplices t)).
  Proof. exact (@report_exact P d). Qed.

  (* a rejected insertion (the three ValueErrors of add_point) returns the state
     unchanged: vertices, simplices and the index *)
  Theorem C03_reject_unchanged : forall (vs : list P) ss (h : list (op P)) p hint o,
    wf_init vs ss -> legal d (init vs ss) (h ++ [AddPoint p hint o]) = true ->
    let t := reach d vs ss h in forall why,
    snd (add_point d t p hint o) = Rejected why -> fst (add_point d t p hint o) = t.
  Proof. exact (@reject_unchanged P d). Qed.

  Theorem C03_every_new_simplex_has_pt : forall (vs : list P) ss (h : list (op P)) p hint o,
    wf_init vs ss -> legal d (init vs ss) (h ++ [AddPoint p hint o]) = true ->
    let t := reach d vs ss h in forall del add s,
    snd (add_point d t p hint o) = Accepted del add -> In s add -> In (nverts t) s.
  Proof. exact (@every_new_simplex_has_pt P d). Qed.

  Theorem C03_vertices_appended_once : forall (vs : list P) ss (h : list (op P)) p hint o,
    wf_init vs ss -> legal d (init vs ss) (h ++ [AddPoint p hint o]) = true ->
    let t := reach d vs ss h in
    match snd (add_point d t p hint o) with
    | Accepted _ _ => verts (fst (add_point d t p hint o)) = verts t ++ [p]
    | _ => verts (fst (add_point d t p hint o)) = verts t
    end.
  Proof. exact (@vertices_appended_once P d). Qed.

  (* ---- facet multiplicities (Proofs/TriFacets.v) ---- *)
  (* [cf g ss] = number of occurrences of the face g among the facets of the
     simplices ss: the quantity the code's hull property inspects *)
  Theorem C03_old_facets_stay_le2 : forall (vs : list P) ss (h : list (op P)) p hint o,
    wf_init vs ss -> (forall s, In s ss -> sorted s) ->
    legal d (init vs ss) (h ++ [AddPoint p hint o]) = true ->
    let t := reach d vs ss h in forall g,
    ~ In (nverts t) g -> cf g (simplices t) <= 2 ->
    cf g (simplices (fst (add_point d t p hint o))) <= 2.
  Proof. exact (@old_facets_stay_le2 P d). Qed.

  Theorem C03_first_overlap_at_new_vertex : forall (vs : list P) ss (h : list (op P)) p hint o,
    wf_init vs ss -> (forall s, In s ss -> sorted s) ->
    legal d (init vs ss) (h ++ [AddPoint p hint o]) = true ->
    let t := reach d vs ss h in forall g,
    broken_faces (all_faces (simplices t)) = false ->
    2 < cf g (simplices (fst (add_point d t p hint o))) -> In (nverts t) g.
  Proof. exact (@first_overlap_at_new_vertex P d). Qed.

  (* a point inserted inside the hull (located or hinted simplex) whose cavity
     -- the reported [del] -- has a closed pseudo-manifold boundary (every ridge
     in at most two boundary faces: what a star-shaped cavity gives) keeps the
     hull property for EVERY facet.  The premise about the ridges is the one
     geometric fact left open; C03_facets_need_geometry violates exactly it. *)
  Theorem C03_closed_cavity_keeps_hull_property : forall (vs : list P) ss (h : list (op P)) p hint o,
    wf_init vs ss -> (forall s, In s ss -> sorted s) ->
    legal d (init vs ss) (h ++ [AddPoint p hint o]) = true ->
    let t := reach d vs ss h in forall del add,
    match hint with Some s => s | None => o_locate o end <> [] ->
    snd (add_point d t p hint o) = Accepted del add ->
    broken_faces (all_faces (simplices t)) = false ->
    (forall r, cf r (hole_faces del) <= 2) ->
    broken_faces (all_faces (simplices (fst (add_point d t p hint o)))) = false.
  Proof. exact (@closed_cavity_keeps_hull_property P d). Qed.

  (* both paths of add_point (inside the hull and hull extension): if the link
     of the new vertex -- the simplices around it with the vertex removed -- is a
     pseudo-manifold, EVERY facet of the triangulation is in at most two
     simplices.  Together with C03_first_overlap_at_new_vertex: the hull
     property can only be lost through the link of the vertex just inserted. *)
  Theorem C03_link_manifold_keeps_hull_property : forall (vs : list P) ss (h : list (op P)) p hint o,
    wf_init vs ss -> (forall s, In s ss -> sorted s) ->
    legal d (init vs ss) (h ++ [AddPoint p hint o]) = true ->
    let t := reach d vs ss h in
    let t' := fst (add_point d t p hint o) in
    broken_faces (all_faces (simplices t)) = false ->
    (forall r, cf r (link_of (nverts t) (simplices t')) <= 2) ->
    broken_faces (all_faces (simplices t')) = false.
  Proof. exact (@link_manifold_keeps_hull_property P d). Qed.

  (* conversely: with the hull property the link of the new vertex is a
     pseudo-manifold, so (given the hull property before) the hull property
     after an insertion is EQUIVALENT to a pseudo-manifold link *)
  Theorem C03_hull_property_gives_link_manifold : forall (vs : list P) ss (h : list (op P)) p hint o,
    wf_init vs ss -> (forall s, In s ss -> sorted s) ->
    legal d (init vs ss) (h ++ [AddPoint p hint o]) = true ->
    let t := reach d vs ss h in
    let t' := fst (add_point d t p hint o) in
    broken_faces (all_faces (simplices t')) = false ->
    forall r, cf r (link_of (nverts t) (simplices t')) <= 2.
  Proof. exact (@hull_property_gives_link_manifold P d). Qed.

  Theorem C03_simplices_sorted_nodup : forall (vs : list P) ss (h : list (op P)) p hint o,
    wf_init vs ss -> (forall s, In s ss -> sorted s) ->
    legal d (init vs ss) (h ++ [AddPoint p hint o]) = true ->
    let t' := fst (add_point d (reach d vs ss h) p hint o) in
    NoDup (simplices t') /\ forall s, In s (simplices t') -> sorted s.
  Proof. exact (@simplices_sorted_nodup P d). Qed.
End C03.

(* non-vacuity: a legal 2-D history with an interior insertion, an insertion
   through the hull-extension path (temporary simplices, one of them deleted
   again), and a rejected duplicate *)
Definition C03_ex_orc (loc red : list nat) (vis flat circ : list simplex) : orc :=
  mkorc loc red (fun f => smem f vis) (fun s => smem s flat) (fun s => smem s circ).

Example C03_example :
  let h := [ AddPoint 3 None (C03_ex_orc [0;1;2] [0;1;2] [] [] [[0;1;2]]);
             AddPoint 4 None (C03_ex_orc [] [] [[1;2]] [] [[1;2;4];[1;2;3]]);
             AddPoint 5 (Some [0;1;3]) (C03_ex_orc [] [3] [] [] []) ] in
  let t := reach 2 [0;1;2] [[0;1;2]] h in
  wf_init [0;1;2] [[0;1;2]] /\
  legal 2 (init [0;1;2] [[0;1;2]]) h = true /\
  verts t = [0;1;2;3;4] /\
  simplices t = [[0;2;3]; [0;1;3]; [2;3;4]; [1;3;4]].
Proof.
  split; [|vm_compute; repeat split].
  intros s v [<-|[]] Hv. cbn [In length] in *. lia.
Qed.

(* sharpness: predicate answers describing a cavity pinched at vertex 0 (a fan
   0-1-2, 0-2-3, 0-3-4, 0-1-4 closed by the outer vertex 5; "in circumcircle" for
   two opposite fan triangles and the outer ones) put the facet [0;6] at the new
   vertex 6 into FOUR simplices, while every facet without 6 stays within two *)
Definition C03_pinched_ss : list simplex :=
  [[0;1;2];[0;2;3];[0;3;4];[0;1;4];[1;2;5];[2;3;5];[3;4;5];[1;4;5]].
Definition C03_pinched_op : op nat :=
  AddPoint 6 (Some [0;1;2]) (C03_ex_orc [] [0;1;2] [] [] [[0;1;2];[1;2;5];[2;3;5];[3;4;5];[0;3;4]]).

Example C03_facets_need_geometry :
  let t := init [0;1;2;3;4;5] C03_pinched_ss in
  let t' := fst (step 2 t C03_pinched_op) in
  wf_init [0;1;2;3;4;5] C03_pinched_ss /\ (forall s, In s C03_pinched_ss -> sorted s) /\
  legal 2 t [C03_pinched_op] = true /\
  broken_faces (all_faces (simplices t)) = false /\
  cf [0;6] (simplices t') = 4 /\
  forallb (fun g => nat_mem 6 g || (cf g (simplices t') <=? 2)) (all_faces (simplices t')) = true.
Proof.
  split; [|split; [|vm_compute; repeat split]].
  - intros s v Hs Hv. cbn [length]. cbn [C03_pinched_ss In] in Hs.
    repeat (destruct Hs as [<-|Hs]; [cbn [In] in Hv; lia|]). destruct Hs.
  - intros s Hs. cbn [C03_pinched_ss In] in Hs.
    repeat (destruct Hs as [<-|Hs]; [repeat constructor|]). destruct Hs.
Qed.

(* non-vacuity of C03_closed_cavity_keeps_hull_property: an interior insertion
   into the pinched example's triangulation with a cavity of two adjacent fan
   triangles; every ridge (vertex) lies in at most two boundary edges *)
Example C03_closed_cavity_example :
  let t := init [0;1;2;3;4;5] C03_pinched_ss in
  let o := C03_ex_orc [] [0;1;2] [] [] [[0;1;2];[0;2;3]] in
  legal 2 t [AddPoint 6 (Some [0;1;2]) o] = true /\
  broken_faces (all_faces (simplices t)) = false /\
  (exists del add, snd (add_point 2 t 6 (Some [0;1;2]) o) = Accepted del add /\
     del = [[0;1;2];[0;2;3]] /\
     forallb (fun r => cf r (hole_faces del) <=? 2) (all_faces (hole_faces del)) = true) /\
  broken_faces (all_faces (simplices (fst (add_point 2 t 6 (Some [0;1;2]) o)))) = false.
Proof.
  split; [vm_compute; reflexivity|]. split; [vm_compute; reflexivity|]. split; [|vm_compute; reflexivity].
  eexists. eexists. split; [vm_compute; reflexivity|]. split; vm_compute; reflexivity.
Qed.

(* the link of the new vertex in the two examples: pinched at vertex 0 in the
   first (ridge [0] in four link faces -- the premise of
   C03_link_manifold_keeps_hull_property fails exactly there), a closed polygon
   in the second *)
Example C03_link_examples :
  let t := init [0;1;2;3;4;5] C03_pinched_ss in
  let t1 := fst (step 2 t C03_pinched_op) in
  let t2 := fst (add_point 2 t 6 (Some [0;1;2]) (C03_ex_orc [] [0;1;2] [] [] [[0;1;2];[0;2;3]])) in
  cf [0] (link_of 6 (simplices t1)) = 4 /\
  forallb (fun r => cf r (link_of 6 (simplices t2)) <=? 2) (all_faces (link_of 6 (simplices t2))) = true /\
  link_of 6 (simplices t2) = [[1;2];[0;1];[2;3];[0;3]].
Proof. vm_compute. repeat split. Qed.

Print Assumptions C03_index_consistent.
Print Assumptions C03_report_exact.
Print Assumptions C03_reject_unchanged.
Print Assumptions C03_every_new_simplex_has_pt.
Print Assumptions C03_vertices_appended_once.
Print Assumptions C03_old_facets_stay_le2.
Print Assumptions C03_first_overlap_at_new_vertex.
Print Assumptions C03_simplices_sorted_nodup.
Print Assumptions C03_closed_cavity_keeps_hull_property.
Print Assumptions C03_link_manifold_keeps_hull_property.
Print Assumptions C03_hull_property_gives_link_manifold.
