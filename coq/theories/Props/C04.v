(* Property C04 -- LearnerND: one loss per simplex of the data, and ask refines
   the worst simplex.  Statements only; proofs in Proofs/LNDProofs.v (table and
   ask bookkeeping) and Proofs/LNDQueue.v (the priority queue).

   Level: PARTIAL.  Proved for all histories and ALL oracle answers (losses,
   volumes, every geometric predicate of the main and of the sub-triangulations,
   chosen points, triangulation attempts):
     C04_one_loss_per_simplex      keys(_losses) = simplices(tri), vertices(tri) = data
     C04_loss_is_max               loss() is an entry of the table and no entry is larger
     C04_ask_count_corners_first   n points, the free corners first and in order
     C04_queue_complete            (repaired code) every unsubdivided simplex has a queue entry
                                   carrying its current loss, the queue is sorted
     C04_next_point_in_worst_simplex  (repaired code) with no subdivided simplex the simplex that is
                                   refined has the largest rounded loss, the improvement is its loss
     C04_next_point_in_worst_simplex_refuted_unfixed   on the code as it is (finding F5) the
                                   statement is false: 4-call witness ending in AssertionError
   Not proved (oracle only, see harness/avh/props/c04.py): the point returned is the
   centroid / longest-edge midpoint (choose_point_in_simplex is an oracle here; property C20),
   distinctness of the suggested points (finding F12 refutes it on the unchanged tree), the
   sub-simplices tile their simplex and share the loss by volume (geometric, C03's partial half;
   the arithmetic vol * (loss / vol) is executed bit for bit by the correspondence). *)
From Coq Require Import ZArith.
From AV Require Import Base.Prelude Model.Tri Model.LND Proofs.TriProofs Proofs.LNDQueue Proofs.LNDProofs.

Section C04.
  Variable L : Type.                                (* loss values *)
  Variables (lmul ldiv : L -> L -> L) (labs : L -> L) (linf : L).
  Variable rnd : L -> Z.                            (* round(loss, 8) in units of 1e-8 *)
  Variable lltb : L -> L -> bool.
  Variable d : nat.
  Variable corners : list nat.
  Variables repaired fix12 : bool.

  Notation run := (run lmul ldiv labs linf rnd d corners repaired fix12).
  Notation legal := (legal lmul ldiv labs linf rnd d corners repaired fix12).

  (* after any legal history in which no operation raised: one loss per simplex,
     and the vertices of the triangulation are the evaluated points (in order) *)
  Theorem C04_one_loss_per_simplex : forall (h : list (op L)),
    legal (init_lnd L) h = true ->
    let s := run (init_lnd L) h in
    l_ok s = true ->
    match l_tri s with
    | Some t => (forall sp, In sp (skeys (l_losses s)) <-> In sp (simplices t)) /\ verts t = l_data s /\ Inv t
    | None => l_losses s = []
    end.
  Proof. exact (@one_loss_per_simplex L lmul ldiv labs linf rnd lltb d corners repaired fix12). Qed.

  (* loss() is an entry of the table and no entry is larger (Python's < on the
     values being a strict weak order, i.e. no NaN) *)
  Theorem C04_loss_is_max :
    (forall a b c, lltb a b = true -> lltb b c = true -> lltb a c = true) ->
    (forall a b c, lltb a b = false -> lltb b c = false -> lltb a c = false) ->
    (forall a, lltb a a = false) ->
    forall s : lnd L,
    match l_tri s, l_losses s with
    | Some _, _ :: _ => In (loss linf lltb s) (map snd (l_losses s)) /\
                        forall v, In v (map snd (l_losses s)) -> lltb (loss linf lltb s) v = false
    | _, _ => loss linf lltb s = linf
    end.
  Proof. exact (@loss_is_max L lmul ldiv labs linf rnd lltb). Qed.

  (* ask(n) that does not raise returns n points; the first min(n, #free corners)
     are the corners that are neither evaluated nor pending, in sorted order,
     each with improvement inf *)
  Theorem C04_ask_count_corners_first : forall E : env L,
    (forall c, In c corners -> e_inb E c = true) -> NoDup corners ->
    forall n s acc s' pts,
    ask_n lmul ldiv labs linf rnd d corners fix12 E n s acc = (s', pts) -> l_err s' = None ->
    exists pts', pts = rev acc ++ pts' /\ length pts' = n /\
      let k := min n (length (free_corners corners s)) in
      firstn k pts' = map (fun c => (c, linf)) (firstn k (free_corners corners s)).
  Proof. exact (@ask_count_corners_first L lmul ldiv labs linf rnd lltb d corners fix12). Qed.
End C04.

Section C04_queue.
  Variable L : Type.
  Variables (lmul ldiv : L -> L -> L) (labs : L -> L) (linf : L).
  Variable rnd : L -> Z.
  Variable d : nat.
  Variable corners : list nat.
  Variable fix12 : bool.
  Notation run := (run lmul ldiv labs linf rnd d corners true fix12).
  Notation legal := (legal lmul ldiv labs linf rnd d corners true fix12).

  (* REPAIRED code (remove_unfinished puts the subdivided simplices back): along every legal
     history without exceptions the queue is sorted by its key, every simplex that is not
     subdivided has an entry carrying its current loss, and an entry of a live simplex
     carries the current loss (entries of deleted simplices are never confused with live ones) *)
  Theorem C04_queue_complete : forall (h : list (op L)),
    legal (init_lnd L) h = true ->
    let s := run (init_lnd L) h in
    l_ok s = true ->
    queue_sorted rnd (l_queue s) /\
    (forall sp, In sp (cur_simplices s) -> shas sp (l_subs s) = false ->
       exists loss, sassoc sp (l_losses s) = Some loss /\ In (loss, sp, None) (l_queue s)) /\
    (forall loss sp, In (loss, sp, None) (l_queue s) -> In sp (cur_simplices s) ->
       sassoc sp (l_losses s) = Some loss).
  Proof. exact (@queue_complete L lmul ldiv labs linf rnd (fun _ _ => true) d corners true fix12 eq_refl). Qed.

  (* ... hence, when no simplex is subdivided (nothing pending), the entry popped by
     _ask_best_point is an unsubdivided live simplex whose rounded loss is the largest of all
     simplices, and the improvement returned is (the absolute value of) that simplex's loss;
     and there is such an entry as soon as the triangulation has a simplex *)
  Theorem C04_next_point_in_worst_simplex : forall (h : list (op L)),
    legal (init_lnd L) h = true ->
    let s := run (init_lnd L) h in
    l_ok s = true -> l_subs s = [] ->
    (cur_simplices s <> [] -> pop_highest s (l_queue s) <> None) /\
    forall loss sp u q', pop_highest s (l_queue s) = Some ((loss, sp, u), q') ->
      u = None /\ In sp (cur_simplices s) /\ sassoc sp (l_losses s) = Some loss /\
      forall sp' loss', In sp' (cur_simplices s) -> sassoc sp' (l_losses s) = Some loss' ->
        (rnd loss' <= rnd loss)%Z.
  Proof. exact (@next_point_in_worst_simplex L lmul ldiv labs linf rnd (fun _ _ => true) d corners true fix12 eq_refl). Qed.
End C04_queue.

(* ------------------------------------------------------------------ *)
(* F5: the 4-call witness (ask 3 corners, tell them, ask 1, remove_unfinished,
   ask 1) on a triangular domain, with integer "losses" *)
Definition w_sub : orc := mkorc [0;1;2] [0;1;2] (fun _ => false) (fun _ => false) (fun _ => true).
Definition w_env (tris : list (option (list simplex))) (choose : list nat) : env Z :=
  mkenv (fun _ => true) tris choose (mkorc [] [] (fun _ => false) (fun _ => false) (fun _ => false)) None false (fun _ => 5%Z) (fun _ => 1%Z) (fun _ _ => 1%Z)
        (fun _ _ => true) (fun _ _ => w_sub) (fun _ => []) [].
Definition w_hist : list (op Z) :=
  [ Ask 3 (w_env [] []); Tell 0 (w_env [] []); Tell 1 (w_env [] []); Tell 2 (w_env [] []);
    Touch (w_env [Some [[0;1;2]]] []); Ask 1 (w_env [] [3]); RemoveUnfinished ].
Definition w_step (repaired : bool) :=
  step Z.mul Z.div Z.abs 1000%Z (fun x => x) 2 [0;1;2] repaired false.
Definition w_run (repaired : bool) := run Z.mul Z.div Z.abs 1000%Z (fun x => x) 2 [0;1;2] repaired false.
Definition w_legal (repaired : bool) := legal Z.mul Z.div Z.abs 1000%Z (fun x => x) 2 [0;1;2] repaired false.

(* on the code as it is, C04_next_point_in_worst_simplex is FALSE: after a legal history
   without exceptions and with nothing pending, the triangulation has a simplex but the
   queue offers none, and ask raises AssertionError("Could not find a simplex to subdivide") *)
Theorem C04_next_point_in_worst_simplex_refuted_unfixed :
  exists h : list (op Z),
    w_legal false (init_lnd Z) h = true /\
    let s := w_run false (init_lnd Z) h in
    l_ok s = true /\ l_subs s = [] /\ l_pend s = [] /\ cur_simplices s <> [] /\
    pop_highest s (l_queue s) = None /\
    snd (w_step false s (Ask 1 (w_env [] [4]))) = OErr ENoSimplex.
Proof.
  exists w_hist. vm_compute. repeat split; congruence.
Qed.

(* the same history on the repaired code: the simplex is offered again *)
Example C04_F5_repaired_witness :
  w_legal true (init_lnd Z) w_hist = true /\
  snd (w_step true (w_run true (init_lnd Z) w_hist) (Ask 1 (w_env [] [4]))) = ORet [(4, 5%Z)].
Proof. vm_compute. split; reflexivity. Qed.

Print Assumptions C04_one_loss_per_simplex.
Print Assumptions C04_loss_is_max.
Print Assumptions C04_ask_count_corners_first.
Print Assumptions C04_queue_complete.
Print Assumptions C04_next_point_in_worst_simplex.
Print Assumptions C04_next_point_in_worst_simplex_refuted_unfixed.
