(* Property C18 -- DataSaver is transparent.  Statements only, closed by
   [exact] of lemmas from Proofs/DataSaverProofs.v.  [L] is an arbitrary
   wrapped learner, [R] the type of full results, [pick] the arg_picker. *)
From AV Require Import Base.Prelude Model.GenericLearner Model.DataSaver Proofs.DataSaverProofs.

Section C18.
  Variable L : Learner.
  Variable R : Type.
  Variable pick : R -> value L.

  (* for every history (asks, tells, batches of tells, tell_pending, loss,
     discards): the wrapped learner inside the DataSaver is in exactly the
     state of the same learner fed the picked values directly ([pick_ops]: a
     tell_many is the sequence of its tells), and every answer (asked points,
     loss improvements, losses) is the one the bare learner gives *)
  Theorem C18_bisimulation : forall (h : list (op L R)) (s : dst L R),
    child (run pick s h) = lrun (child s) (flat_map (pick_ops pick) h) /\
    trace pick s h = ctrace pick (child s) h.
  Proof. exact (@bisimulation L R pick). Qed.

  (* hence every attribute reached through __getattr__ (data,
     pending_points, npoints, ...) is that of the unwrapped twin *)
  Theorem C18_bisimulation_obs : forall A (attr : state L -> A) (h : list (op L R)) (s : dst L R),
    getattr attr (run pick s h) = attr (lrun (child s) (flat_map (pick_ops pick) h)).
  Proof. exact (@bisimulation_obs L R pick). Qed.

  (* tell_many(xs, results) is exactly the sequence tell(x, result) *)
  Theorem C18_tell_many_is_tells : forall (xrs : list (point L * R)) (s : dst L R),
    tell_many pick s xrs = run pick s (map (fun xr => Tell (fst xr) (snd xr)) xrs).
  Proof. exact (@tell_many_is_tells L R pick). Qed.

  Hypothesis point_laws : PointLaws L.     (* == on points is an equivalence *)

  (* extra_data: keys = the told points (no key twice), value = the last
     full result told for that point, singly or in a batch ([tolds h]);
     nothing else (ask, tell_pending, loss, remove_unfinished) touches it *)
  Theorem C18_extra_data : forall (h : list (op L R)) (k : state L),
    (forall x, alookup L x (extra (run pick (DataSaver.init L R k) h)) = last_told x h) /\
    (forall x, (exists r, alookup L x (extra (run pick (DataSaver.init L R k) h)) = Some r) <->
               (exists x' r, In (x', r) (tolds h) /\ peqb L x' x = true)) /\
    distinct_keys L (extra (run pick (DataSaver.init L R k) h)).
  Proof.
    exact (fun h k => conj (fun x => @extra_data_value L R pick point_laws h k x)
                     (conj (fun x => @extra_data_keys L R pick point_laws h k x)
                           (@extra_distinct L R pick point_laws h (DataSaver.init L R k) I))).
  Qed.

  (* _set_data(_get_data()) restores extra_data exactly and hands the child
     its own _get_data *)
  Theorem C18_roundtrip : forall s s0 : dst L R,
    set_data s (get_data s0) =
    @DataSaver.mk L R (GenericLearner.set_data L (child s) (GenericLearner.get_data L (child s0))) (extra s0).
  Proof. exact (@roundtrip L R). Qed.
End C18.

(* non-vacuity: the toy learner wrapped with pick = fst; results are
   (value, tag) pairs; point 3 is told twice, the second result wins *)
Example C18_example :
  let h : list (op Toy.learner (nat * nat)) :=
    [Ask 2 true; @Tell Toy.learner _ 0 (5, 100); @TellMany Toy.learner _ [(3, (6, 101)); (3, (7, 102))]; Loss true;
     @TellPending Toy.learner _ 0; RemoveUnfinished; Ask 1 false] in
  let s := run fst (DataSaver.init Toy.learner (nat * nat) Toy.init) h in
  extra s = [(0, (5, 100)); (3, (7, 102))] /\
  Toy.known (child s) = [(0, 5); (3, 7)] /\
  set_data (DataSaver.init Toy.learner (nat * nat) Toy.init) (get_data s) =
    @DataSaver.mk Toy.learner _ (Toy.mk [(0, 5); (3, 7)] []) [(0, (5, 100)); (3, (7, 102))].
Proof. vm_compute. repeat split. Qed.

Print Assumptions C18_bisimulation.
Print Assumptions C18_bisimulation_obs.
Print Assumptions C18_tell_many_is_tells.
Print Assumptions C18_extra_data.
Print Assumptions C18_roundtrip.
