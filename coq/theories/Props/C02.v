(* Property C02 -- Learner1D: ask places new points where they most reduce the
   worst loss.  Statements only; proofs in Proofs/L1DAskProofs.v.

   The theorems are about [ask_points] / [ask] of the executable model
   Model/L1D.v (the model that the correspondence check compares bit for bit
   with learner1D.py), for EVERY well-formed state [s] and EVERY request size
   [n].  They are generic in the number structure; the laws used are explicit:
     OrderLaws    ltb is a strict total order, eqb decides equality
     key_antitone subdividing an interval does not increase its sort key
     LinLaws      equal-subdivision points of a finite interval lie strictly
                  inside it, in increasing order (exact arithmetic)
   Part B closes them, without hypotheses on the number structure, for the
   exact instance [xq] (rationals extended by +-inf).  IEEE doubles are NOT an
   instance of [key_antitone]/[LinLaws] in general (loss/2*2/3 is not loss/3 in
   floats; midpoints of 1-ulp intervals coincide with end points): for floats
   the model is validated against the code, not proved optimal. *)
From Coq Require Import ZArith QArith Qcanon.
From AV Require Import Base.Prelude Model.L1D Proofs.L1DAskProofs.
Close Scope Q_scope. Close Scope Qc_scope.

(* ================================================================== *)
(* A. the abstract exchange lemma and the generic theorems              *)
(* ================================================================== *)

(* Greedy minimises the maximum (DESIGN Appendix A.2).  [greedy k a]: a is
   reached from a0 by k steps, each giving one more unit to an index whose
   current key is maximal (any arg-max; ties may be broken arbitrarily). *)
Theorem C02_greedy_minimises_max :
  forall (I K : Type) (I_eq_dec : forall i j : I, {i = j} + {i <> j}) (le : K -> K -> Prop),
    (forall x, le x x) -> (forall x y z, le x y -> le y z -> le x z) ->
  forall (key : I -> nat -> K) (idx : list I) (a0 : I -> nat),
    (forall i n, In i idx -> a0 i <= n -> le (key i (S n)) (key i n)) ->
  forall (k : nat) (a b : I -> nat),
    greedy I K I_eq_dec le key idx a0 k a ->
    (forall i, In i idx -> a0 i <= b i) -> total I b idx = total I a idx ->
    forall i, In i idx -> exists j, In j idx /\ le (key i (a i)) (key j (b j)).
Proof. exact greedy_minimises_max. Qed.

Section C02.
  Variable num : Type.
  Variables (add sub mul div : num -> num -> num).
  Variables (ltb eqb : num -> num -> bool).
  Variables (zero one inf : num).
  Variables (is_nan is_inf : num -> bool).
  Variable round12 : num -> num.
  Variable of_nat : nat -> num.
  Variable L : list (option num) -> list (option (Y num)) -> num.   (* the loss function: abstract *)
  Variable P : params num.
  Hypothesis OL : OrderLaws num ltb eqb.

  Notation ask_points := (ask_points add sub mul div ltb eqb zero inf is_nan is_inf round12 of_nat P).
  Notation ask := (ask add sub mul div ltb eqb zero one inf is_nan is_inf round12 of_nat L P).
  Notation linspace := (linspace add sub mul div of_nat).
  Notation np_linspace := (np_linspace add sub mul div eqb zero of_nat).
  Notation missing_bounds := (missing_bounds eqb P).
  Notation wf := (wf num ltb eqb P).            (* see Proofs/L1DAskProofs.v: lo<hi; nbc strictly sorted, = evaluated+pending
                                                   points, all inside [lo,hi]; keys of losc = consecutive pairs of nbc;
                                                   the x-scale of the sort key is the current one.  [wfb] is its
                                                   executable form, evaluated on every state of the correspondence run *)
  Notation missing := (missing num eqb).        (* end point neither evaluated nor pending *)
  Notation ivals := (ivals num eqb P).          (* consecutive pairs of (missing lo?) ++ nbc ++ (missing hi?) *)
  Notation key_of := (key_of num sub mul div eqb inf is_nan is_inf round12 of_nat).
  Notation le := (le num ltb).

  Theorem C02_wf_executable : forall s, wfb num ltb eqb P s = true <-> wf s.
  Proof. exact (wfb_wf num add sub mul div ltb eqb zero is_nan is_inf round12 P OL). Qed.

  (* [wf] follows from the structural invariant of reachable states (the merge of
     evaluated and pending points is determined by sortedness + membership) *)
  Theorem C02_wf_from_structure : forall s,
    lt num ltb (lo P) (hi P) ->
    Sorted.StronglySorted (lt num ltb) (keys num s) -> Sorted.StronglySorted (lt num ltb) (pend s) ->
    Sorted.StronglySorted (lt num ltb) (nbc s) ->
    (forall x, In x (nbc s) <-> In x (keys num s) \/ In x (pend s)) ->
    (forall x, In x (nbc s) -> le (lo P) x /\ le x (hi P)) ->
    map fst (losc s) = pairs (nbc s) ->
    mgrx s = sx s ->
    wf s.
  Proof. exact (wf_from_structure num add sub mul div ltb eqb zero is_nan is_inf round12 of_nat P OL). Qed.

  (* exactly n points and n improvements: every iteration of the loop adds
     exactly one point, and the loop can always make a step *)
  Theorem C02_count : forall s n, wf s ->
    length (fst (ask_points s n)) = n /\ length (snd (ask_points s n)) = n.
  Proof. exact (ask_count num add sub mul div ltb eqb zero inf is_nan is_inf round12 of_nat P OL). Qed.

  (* the missing end points, sorted, come first with improvement inf; for
     n <= #missing the answer is exactly the first n of them.  The only other
     shape is the empty learner with n > 2 (next theorem), where both end
     points are the first and the LAST element of the uniform grid. *)
  Theorem C02_bounds_first : forall s n, wf s ->
    let mb := missing_bounds s in
    mb = filter (missing s) [lo P; hi P] /\
    ((n <= length mb /\ ask_points s n = (firstn n mb, repeat inf n)) \/
     (length mb < n /\ data s = [] /\ pend s = [] /\
      ask_points s n = (np_linspace (lo P) (hi P) n, repeat inf n)) \/
     (length mb < n /\ exists pts imps,
        ask_points s n = (mb ++ pts, repeat inf (length mb) ++ imps) /\
        length pts = n - length mb /\ length imps = n - length mb)).
  Proof. exact (ask_bounds_first num add sub mul div ltb eqb zero inf is_nan is_inf round12 of_nat P OL). Qed.

  Theorem C02_missing_spec : forall s b,
    missing s b = true <-> ~ In b (keys num s) /\ ~ In b (pend s).
  Proof. exact (missing_iff num add sub mul div ltb eqb zero is_nan is_inf round12 OL). Qed.

  (* no data, nothing pending, n > 2: numpy's uniform grid of n points, last = hi
     (first = lo and strict monotonicity: C02_xq_fresh_distinct_in_domain / LinLaws) *)
  Theorem C02_empty_uniform : forall s n, wf s -> data s = [] -> pend s = [] -> 2 < n ->
    ask_points s n = (np_linspace (lo P) (hi P) n, repeat inf n) /\
    length (np_linspace (lo P) (hi P) n) = n /\
    nth (n - 1) (np_linspace (lo P) (hi P) n) zero = hi P.
  Proof. exact (ask_empty_uniform num add sub mul div ltb eqb zero inf is_nan is_inf round12 of_nat P OL). Qed.

  (* ... and under the laws of exact arithmetic its first element is lo, it has no
     repetitions and stays inside [lo, hi] *)
  Theorem C02_empty_uniform_exact :
    LinLaws num add sub mul div ltb eqb zero is_nan is_inf of_nat ->
    forall s, wf s -> finite num is_nan is_inf (lo P) -> finite num is_nan is_inf (hi P) ->
    forall n, 2 < n ->
      NoDup (np_linspace (lo P) (hi P) n) /\
      (forall x, In x (np_linspace (lo P) (hi P) n) -> le (lo P) x /\ le x (hi P)) /\
      nth 0 (np_linspace (lo P) (hi P) n) zero = lo P.
  Proof. exact (np_linspace_spec num add sub mul div ltb eqb zero is_nan is_inf of_nat P OL). Qed.

  (* every other point is [linspace a b k] for an interval (a,b) of [ivals s],
     each interval used at most once, sum (k-1) = n - #missing; the
     improvement of each such point is the interval's loss after k-fold
     subdivision by the code's recurrence ([sub_loss]) *)
  Theorem C02_equal_subdivision : forall s n, wf s ->
    length (missing_bounds s) < n -> length (data s) + length (pend s) <> 0 ->
    exists quals : list (qual num),
      ask_points s n =
        (missing_bounds s ++ flat_map (fun q : qual num => linspace (fst (q_iv q)) (snd (q_iv q)) (q_n q)) quals,
         repeat inf (length (missing_bounds s)) ++ flat_map (fun q : qual num => repeat (q_loss q) (q_n q - 1)) quals) /\
      NoDup (map (@q_iv num) quals) /\
      list_sum (map (fun q : qual num => q_n q - 1) quals) = n - length (missing_bounds s) /\
      forall q, In q quals ->
        1 <= q_n q /\ In (q_iv q) (ivals s) /\
        q_loss q = sub_loss num mul div eqb inf of_nat s (q_iv q) (q_n q).
  Proof. exact (ask_equal_subdivision num add sub mul div ltb eqb zero inf is_nan is_inf round12 of_nat P OL). Qed.

  Theorem C02_intervals : forall s, nbc s <> [] ->
    ivals s = (if missing s (lo P) then [(lo P, first_num (nbc s) (lo P))] else []) ++ pairs (nbc s) ++
              (if missing s (hi P) then [(last_num (nbc s) (hi P), hi P)] else []).
  Proof. exact (ivals_eq num eqb P). Qed.

  (* REFINEMENT: k iterations of the model's two-structure loop (sorted
     losses_combined with index i + sorted quals) are k steps of the abstract
     greedy process over the intervals [lidx rest0 quals0] with keys [kf] *)
  Theorem C02_loop_is_greedy :
    forall (xs : num) (kf ls : ival num -> nat -> num) (rest0 : list (ival num * num)) (quals0 : list (qual num)),
      NoDup (lidx num rest0 quals0) ->
      (forall q, In q quals0 ->
         q_n q = 1 /\ q_loss q = ls (q_iv q) 1 /\
         ls (q_iv q) 2 = div (mul (ls (q_iv q) 1) (of_nat 1)) (of_nat 2) /\
         kf (q_iv q) 1 = finite_loss3 sub div is_nan is_inf round12 of_nat (q_iv q) 1 (ls (q_iv q) 1) xs) ->
      (forall e, In e rest0 ->
         ls (fst e) 2 = div (snd e) (of_nat 2) /\ kf (fst e) 1 = fe num sub div is_nan is_inf round12 xs e) ->
      (forall iv n, 2 <= n -> ls iv (S n) = div (mul (ls iv n) (of_nat n)) (of_nat (S n))) ->
      (forall iv n, 2 <= n -> kf iv n = finite_loss3 sub div is_nan is_inf round12 of_nat iv n (ls iv n) xs) ->
      Sorted.StronglySorted (Rq num sub div ltb is_nan is_inf round12 of_nat xs) quals0 ->
      Sorted.StronglySorted (Re num sub div ltb is_nan is_inf round12 xs) rest0 ->
      forall k, quals0 <> [] \/ rest0 <> [] ->
      exists r a,
        lgreedy num ltb eqb OL kf rest0 quals0 k a /\
        LInv num sub div ltb is_nan is_inf round12 of_nat xs ls rest0 quals0 k r
             (ask_loop sub mul div ltb eqb is_nan is_inf round12 of_nat k xs rest0 quals0) a.
  Proof. exact (ask_loop_refines num sub mul div ltb eqb is_nan is_inf round12 of_nat OL). Qed.

  (* OPTIMALITY.  [a] is the allocation computed by ask (k parts for the
     intervals it subdivides, 1 for the others); for EVERY other allocation [b]
     of the same number of points the largest key is at least as large.
     [key_of s iv k] is the code's own finite_loss of interval iv after k-fold
     subdivision: round12(loss) with loss following the code's recurrences, or
     round12(width / x_scale / k) when the loss is infinite/unknown. *)
  Theorem C02_optimal : forall s n, wf s ->
    key_antitone num sub mul div ltb eqb inf is_nan is_inf round12 of_nat P s ->
    length (missing_bounds s) < n -> length (data s) + length (pend s) <> 0 ->
    let k := n - length (missing_bounds s) in
    exists a : ival num -> nat,
      (forall q, In q (quals_of num sub mul div ltb eqb inf is_nan is_inf round12 of_nat P s n) -> a (q_iv q) = q_n q) /\
      (forall i, In i (ivals s) ->
         ~ In i (map (@q_iv num) (quals_of num sub mul div ltb eqb inf is_nan is_inf round12 of_nat P s n)) -> a i = 1) /\
      total (ival num) a (ivals s) = length (ivals s) + k /\
      forall b : ival num -> nat,
        (forall i, In i (ivals s) -> 1 <= b i) -> total (ival num) b (ivals s) = length (ivals s) + k ->
        forall i, In i (ivals s) -> exists j, In j (ivals s) /\ le (key_of s i (a i)) (key_of s j (b j)).
  Proof. exact (ask_optimal num add sub mul div ltb eqb zero inf is_nan is_inf round12 of_nat P OL). Qed.

  (* distinct, inside the domain, none evaluated or pending -- under the laws of
     exact arithmetic *)
  Theorem C02_fresh_distinct_in_domain :
    LinLaws num add sub mul div ltb eqb zero is_nan is_inf of_nat ->
    forall s, wf s -> finite num is_nan is_inf (lo P) -> finite num is_nan is_inf (hi P) ->
    forall n, let pts := fst (ask_points s n) in
      NoDup pts /\
      forall x, In x pts -> le (lo P) x /\ le x (hi P) /\ ~ In x (keys num s) /\ ~ In x (pend s).
  Proof. exact (ask_fresh_distinct num add sub mul div ltb eqb zero inf is_nan is_inf round12 of_nat P OL). Qed.

  (* ask(n, tell_pending=False) returns the same points and leaves the state
     alone; ask(n) adds exactly the returned points to the pending set *)
  Theorem C02_commit_pending : forall s n,
    snd (ask s n true) = ask_points s n /\ snd (ask s n false) = ask_points s n /\
    fst (ask s n false) = s /\
    data (fst (ask s n true)) = data s /\
    forall y, In y (pend (fst (ask s n true))) <->
              In y (pend s) \/ (In y (fst (ask_points s n)) /\ ~ In y (keys num s)).
  Proof. exact (ask_commit num add sub mul div ltb eqb zero one inf is_nan is_inf round12 of_nat L P OL). Qed.
End C02.

(* ================================================================== *)
(* B. closed for the exact instance xq                                  *)
(* ================================================================== *)
Theorem C02_laws_inhabited :
  OrderLaws xq xltb xeqb /\ LinLaws xq xadd xsub xmul xdiv xltb xeqb (Fin 0%Qc) xis_nan xis_inf xof_nat.
Proof. exact (conj xOrderLaws xLinLaws). Qed.

Section C02_xq.
  Variable P : params xq.
  Notation xask_points := (ask_points xadd xsub xmul xdiv xltb xeqb (Fin 0%Qc) PInf xis_nan xis_inf xround12 xof_nat P).
  Notation xivals := (ivals xq xeqb P).
  Notation xkey_of := (key_of xq xsub xmul xdiv xeqb PInf xis_nan xis_inf xround12 xof_nat).
  Notation xquals_of := (quals_of xq xsub xmul xdiv xltb xeqb PInf xis_nan xis_inf xround12 xof_nat P).

  (* over exact rationals the key IS round12(loss0/k) resp. round12(width/x_scale/k),
     and it is antitone whenever the stored losses are non-negative *)
  Theorem C02_xq_key_form : forall s, xq_okb P s = true -> forall iv, In iv (xivals s) ->
    exists w, (0 <= w)%Qc /\ forall n, 1 <= n -> xkey_of s iv n = Fin (round12q (w / qn n)%Qc).
  Proof.
    intros s H. destruct (xq_okb_spec P s H) as (W & Flo & Fhi & Hsx & Hnn).
    exact (xq_key_form P s W Flo Fhi Hsx Hnn).
  Qed.

  Theorem C02_xq_optimal : forall s n, xq_okb P s = true ->
    length (missing_bounds xeqb P s) < n -> length (data s) + length (pend s) <> 0 ->
    let k := n - length (missing_bounds xeqb P s) in
    exists a : ival xq -> nat,
      (forall q, In q (xquals_of s n) -> a (q_iv q) = q_n q) /\
      (forall i, In i (xivals s) -> ~ In i (map (@q_iv xq) (xquals_of s n)) -> a i = 1) /\
      total (ival xq) a (xivals s) = length (xivals s) + k /\
      forall b : ival xq -> nat,
        (forall i, In i (xivals s) -> 1 <= b i) -> total (ival xq) b (xivals s) = length (xivals s) + k ->
        forall i, In i (xivals s) ->
          exists j, In j (xivals s) /\ xltb (xkey_of s j (b j)) (xkey_of s i (a i)) = false.
  Proof.
    intros s n H. destruct (xq_okb_spec P s H) as (W & Flo & Fhi & Hsx & Hnn).
    exact (ask_optimal xq xadd xsub xmul xdiv xltb xeqb (Fin 0%Qc) PInf xis_nan xis_inf xround12 xof_nat P xOrderLaws
             s n W (xq_key_antitone P s W Flo Fhi Hsx Hnn)).
  Qed.

  Theorem C02_xq_fresh_distinct_in_domain : forall s n, xq_okb P s = true ->
    let pts := fst (xask_points s n) in
    NoDup pts /\
    forall x, In x pts ->
      xltb x (lo P) = false /\ xltb (hi P) x = false /\ ~ In x (map fst (data s)) /\ ~ In x (pend s).
  Proof.
    intros s n H. destruct (xq_okb_spec P s H) as (W & Flo & Fhi & _).
    exact (ask_fresh_distinct xq xadd xsub xmul xdiv xltb xeqb (Fin 0%Qc) PInf xis_nan xis_inf xround12 xof_nat P
             xOrderLaws xLinLaws s W Flo Fhi n).
  Qed.
End C02_xq.

(* ================================================================== *)
(* C. the hypotheses are satisfiable: a non-trivial exact state         *)
(* ================================================================== *)
Definition qc (n : Z) (d : positive) : xq := Fin (Q2Qc (n # d)).
(* uniform loss on scaled xs *)
Definition exL (xs : list (option xq)) (_ : list (option (Y xq))) : xq :=
  match xs with [Some a; Some b] => xsub b a | _ => Fin 0%Qc end.
Definition exP : params xq := mkparams (qc 0 1) (qc 1 1) (qc 0 1) 0 (qc 2 1).
Definition exrun :=
  @run xq xadd xsub xmul xdiv xltb xeqb (Fin 0%Qc) (Fin 1%Qc) PInf NInf xis_nan xis_inf xround12 xof_nat exL exP.
Definition exinit := @init xq xsub (Fin 0%Qc) PInf NInf exP.
(* 0 and 1/2 evaluated, 1/8 and 3/4 pending, the end point 1 missing *)
Definition ex_state : st xq :=
  exrun exinit [Tell (qc 0 1) (YS (qc 0 1)); Tell (qc 1 2) (YS (qc 3 1)); TellPending (qc 1 8); TellPending (qc 3 4)].

Example C02_example_ok : xq_okb exP ex_state = true.
Proof. vm_compute. reflexivity. Qed.

(* ask 5: the missing end point 1 first; (1/8,1/2) with loss 3/8 is cut in three, the two
   unknown-loss intervals (1/2,3/4) and (3/4,1) of relative width 1/4 in two: every key ends at 1/8 *)
Example C02_example_answer :
  list_eqb xeqb (fst (ask_points xadd xsub xmul xdiv xltb xeqb (Fin 0%Qc) PInf xis_nan xis_inf xround12 xof_nat exP ex_state 5))
           [qc 1 1; qc 1 4; qc 3 8; qc 5 8; qc 7 8] = true.
Proof. vm_compute. reflexivity. Qed.

Print Assumptions C02_greedy_minimises_max.
Print Assumptions C02_wf_from_structure.
Print Assumptions C02_count.
Print Assumptions C02_bounds_first.
Print Assumptions C02_empty_uniform.
Print Assumptions C02_empty_uniform_exact.
Print Assumptions C02_equal_subdivision.
Print Assumptions C02_loop_is_greedy.
Print Assumptions C02_optimal.
Print Assumptions C02_fresh_distinct_in_domain.
Print Assumptions C02_commit_pending.
Print Assumptions C02_laws_inhabited.
Print Assumptions C02_xq_key_form.
Print Assumptions C02_xq_optimal.
Print Assumptions C02_xq_fresh_distinct_in_domain.
Print Assumptions C02_example_ok.
