(* Property C15 -- BalancingLearner routes, aggregates and balances correctly.
   Statements only; each is closed by [exact] of a lemma from
   Proofs/Balancing*.v.  [L : Learner] is an arbitrary child learner type:
   the theorems hold for every behaviour of the children, every number of
   children and every history.  [repaired = true] is the model with
   fixes/F2_balancing_caches.patch applied, [repaired = false] the code as
   it is (finding F2). *)
From AV Require Import Base.Prelude Model.GenericLearner Model.Balancing
  Proofs.BalancingProofs Proofs.BalancingOrder Proofs.BalancingCoh Proofs.BalancingStrat
  Proofs.BalancingProv Proofs.BalancingMain Proofs.BalancingTentative.

Section C15.
  Variable L : Learner.

  (* (1) a tell / tell_pending for child i changes child i only, by exactly
     the child's own tell / tell_pending; (2) every (i, p) an ask returns was
     proposed (as the head of an ask(1) answer, with the returned
     improvement) by child i in a state child i went through.  Both models. *)
  Theorem C15_routing :
    (forall (s : bst L) i x y k, nth_error (kids s) i = Some k ->
       nth_error (kids (tell s i x y)) i = Some (GenericLearner.tell L k x y) /\
       (forall j, j <> i -> nth_error (kids (tell s i x y)) j = nth_error (kids s) j) /\
       length (kids (tell s i x y)) = length (kids s)) /\
    (forall repaired (s : bst L) i x k, nth_error (kids s) i = Some k ->
       nth_error (kids (tell_pending repaired s i x)) i = Some (GenericLearner.tell_pending L k x) /\
       (forall j, j <> i -> nth_error (kids (tell_pending repaired s i x)) j = nth_error (kids s) j) /\
       length (kids (tell_pending repaired s i x)) = length (kids s)) /\
    (forall ks0 repaired st (h : list (op L)) n i p v,
       legal h = true ->
       let s := run repaired (init L ks0 st) h in
       failed s = false -> failed (fst (bask repaired s n true)) = false ->
       In ((i, p), v) (snd (bask repaired s n true)) ->
       exists k0, nth_error ks0 i = Some k0 /\ @proposed L k0 p v).
  Proof. exact (conj (@routing_tell L) (conj (@routing_tell_pending L) (@routing_ask L))). Qed.

  (* data / pending_points are the (labelled) union, npoints the sum *)
  Theorem C15_aggregates : forall s : bst L,
    (forall i p v, In (i, (p, v)) (bdata s) <->
                   exists k, nth_error (kids s) i = Some k /\ In (p, v) (data L k)) /\
    (forall i p, In (i, p) (bpending s) <->
                 exists k, nth_error (kids s) i = Some k /\ In p (pending L k)) /\
    bnpoints s = list_sum (map (npoints L) (kids s)) /\
    length (bdata s) = list_sum (map (fun k => length (data L k)) (kids s)) /\
    length (bpending s) = list_sum (map (fun k => length (pending L k)) (kids s)).
  Proof. exact (@aggregates L). Qed.

  (* 'npoints' (both models): every iteration of ask serves the FIRST child
     with the fewest total_points, where total_points starts as known+pending
     of every child at the call and counts the points served since *)
  Theorem C15_npoints_strategy : forall repaired (s : bst L) n,
    strat s = SNpoints ->
    (forall pre tp i p v,
       In ((pre, tp), ((i, p), v)) (loop_trace (body_of repaired (strat s)) n s (total_points s)) ->
       exists t, nth_error tp i = Some t /\
                 (forall j tj, nth_error tp j = Some tj -> t <= tj) /\
                 (forall j tj, j < i -> nth_error tp j = Some tj -> t < tj)) /\
    (forall m pre tp e,
       nth_error (loop_trace (body_of repaired (strat s)) n s (total_points s)) m = Some ((pre, tp), e) ->
       tp = fold_left (fun t i => list_inc i t)
              (map (fun x => fst (fst (snd x)))
                   (firstn m (loop_trace (body_of repaired (strat s)) n s (total_points s))))
              (map (fun k => npoints L k + length (pending L k)) (kids s))).
  Proof. exact (@npoints_hist L). Qed.

  (* ask's answer is exactly the items selected by the successive iterations *)
  Theorem C15_ask_is_trace : forall repaired (s : bst L) n,
    failed (fst (bask repaired s n true)) = false ->
    snd (bask repaired s n true) =
      map snd (loop_trace (body_of repaired (strat s)) n s (total_points s)) /\
    length (snd (bask repaired s n true)) = n.
  Proof. exact (@bask_trace L). Qed.

  (* 'cycle' (both models): rotation, continuing where the last ask stopped *)
  Theorem C15_cycle_strategy : forall repaired ks st (h : list (op L)) n,
    ks <> [] -> legal h = true ->
    let s := run repaired (init L ks st) h in
    failed s = false -> strat s = SCycle ->
    failed (fst (bask repaired s n true)) = false ->
    map (fun e => fst (fst e)) (snd (bask repaired s n true)) =
      map (fun t => (cyc s + t) mod length ks) (seq 0 n) /\
    cyc (fst (bask repaired s n true)) = (cyc s + n) mod length ks /\
    length (snd (bask repaired s n true)) = n.
  Proof. exact (@cycle_hist L). Qed.

  (* ---- the statements that depend on the caches: repaired model, children
     whose non-committing ask(1) leaves them unchanged (C09 of the child) ---- *)
  Hypothesis child_ask_pure : forall k : state L, snd (ask L k 1 false) = k.

  Theorem C15_cache_coherent : forall ks st (h : list (op L)),
    legal h = true ->
    let s := run true (init L ks st) h in
    failed s = false ->
    forall i,
      (forall v, lcache s i = Some v -> exists k, nth_error (kids s) i = Some k /\ v = loss L k true) /\
      (forall v, pcache s i = Some v -> exists k, nth_error (kids s) i = Some k /\ v = loss L k false) /\
      (forall a, acache s i = Some a -> exists k, nth_error (kids s) i = Some k /\ a = fst (ask L k 1 false)).
  Proof. exact (@cache_coherent L child_ask_pure). Qed.

  Hypothesis num_laws : NumLaws L.

  (* loss(real), for both flags, is the largest current loss among the
     children, and asking for it does not touch the children *)
  Theorem C15_loss_is_max_of_children : forall ks st (h : list (op L)) real m,
    legal h = true ->
    let s := run true (init L ks st) h in
    failed s = false -> snd (bloss s real) = Some m ->
    (exists k, In k (kids s) /\ m = loss L k real) /\
    (forall k, In k (kids s) -> nltb L m (loss L k real) = false) /\
    kids (fst (bloss s real)) = kids s.
  Proof. exact (@loss_is_max_hist L child_ask_pure num_laws). Qed.

  (* 'loss_improvements': every iteration serves the child whose current
     offer ask(1, tell_pending=False) has the largest improvement (ties: the
     fewest total_points, then the first), and returns that offer *)
  Theorem C15_improvement_strategy : forall ks st (h : list (op L)) n,
    legal h = true ->
    let s := run true (init L ks st) h in
    failed s = false -> strat s = SImp ->
    forall pre tp i p v,
      In ((pre, tp), ((i, p), v)) (loop_trace (body_of true (strat s)) n s (total_points s)) ->
      exists ki ps vs, nth_error (kids pre) i = Some ki /\
        fst (ask L ki 1 false) = (p :: ps, v :: vs) /\
        forall j kj pj psj vj vsj, nth_error (kids pre) j = Some kj ->
          fst (ask L kj 1 false) = (pj :: psj, vj :: vsj) ->
          nltb L v vj = false /\ kgt L (vj, nth j tp 0) (v, nth i tp 0) = false.
  Proof. exact (@improvement_hist L child_ask_pure num_laws). Qed.

  (* 'loss': every iteration serves the child with the largest current
     expected loss loss(real=False) (ties: fewest total_points, then first) *)
  Theorem C15_loss_strategy : forall ks st (h : list (op L)) n,
    legal h = true ->
    let s := run true (init L ks st) h in
    failed s = false -> strat s = SLoss ->
    forall pre tp i p v,
      In ((pre, tp), ((i, p), v)) (loop_trace (body_of true (strat s)) n s (total_points s)) ->
      exists ki, nth_error (kids pre) i = Some ki /\
        forall j kj, nth_error (kids pre) j = Some kj ->
          nltb L (loss L ki false) (loss L kj false) = false /\
          kgt L (loss L kj false, nth j tp 0) (loss L ki false, nth i tp 0) = false.
  Proof. exact (@loss_hist L child_ask_pure num_laws). Qed.
End C15.

(* ------------------------------------------------------------------ *)
(* Histories that also contain the tentative ask, ask(n, tell_pending=False),
   of the repaired code (it snapshots its caches and _cycle, utils.restore puts
   the children back).  [child_restore_exact]: the children are put back
   exactly -- property C09 of the children, assumed here, not established.
   Under it the tentative ask answers what the committing ask would answer and
   is the identity on the wrapper's state, so the statements above hold along
   ALL histories (no [legal] hypothesis). *)
Section C15_tentative.
  Variable L : Learner.
  Hypothesis child_restore_exact : forall old cur : state L, restore L old cur = old.

  Theorem C15_tentative_ask_no_trace : forall (s : bst L) n,
    (snd (bask true s n false) = snd (bask true s n true) /\
     failed (fst (bask true s n false)) = failed (fst (bask true s n true))) /\
    (failed s = false -> failed (fst (bask true s n false)) = false -> fst (bask true s n false) = s).
  Proof. exact (fun s n => conj (@bask_nc_out L true s n) (@bask_nc_identity L child_restore_exact s n)). Qed.

  Theorem C15_routing_all : forall ks0 st (h : list (op L)) n c i p v,
    let s := run true (init L ks0 st) h in
    failed s = false -> failed (fst (bask true s n c)) = false ->
    In ((i, p), v) (snd (bask true s n c)) ->
    exists k0, nth_error ks0 i = Some k0 /\ @proposed L k0 p v.
  Proof. exact (@routing_ask_all L child_restore_exact). Qed.

  Theorem C15_cycle_strategy_all : forall ks st (h : list (op L)) n,
    ks <> [] ->
    let s := run true (init L ks st) h in
    failed s = false -> strat s = SCycle ->
    failed (fst (bask true s n true)) = false ->
    map (fun e => fst (fst e)) (snd (bask true s n true)) =
      map (fun t => (cyc s + t) mod length ks) (seq 0 n) /\
    cyc (fst (bask true s n true)) = (cyc s + n) mod length ks /\
    length (snd (bask true s n true)) = n.
  Proof. exact (@cycle_all L child_restore_exact). Qed.

  Hypothesis child_ask_pure : forall k : state L, snd (ask L k 1 false) = k.

  Theorem C15_cache_coherent_all : forall ks st (h : list (op L)),
    let s := run true (init L ks st) h in
    failed s = false ->
    forall i,
      (forall v, lcache s i = Some v -> exists k, nth_error (kids s) i = Some k /\ v = loss L k true) /\
      (forall v, pcache s i = Some v -> exists k, nth_error (kids s) i = Some k /\ v = loss L k false) /\
      (forall a, acache s i = Some a -> exists k, nth_error (kids s) i = Some k /\ a = fst (ask L k 1 false)).
  Proof. exact (@cache_coherent_all L child_restore_exact child_ask_pure). Qed.

  Hypothesis num_laws : NumLaws L.

  Theorem C15_loss_is_max_of_children_all : forall ks st (h : list (op L)) real m,
    let s := run true (init L ks st) h in
    failed s = false -> snd (bloss s real) = Some m ->
    (exists k, In k (kids s) /\ m = loss L k real) /\
    (forall k, In k (kids s) -> nltb L m (loss L k real) = false) /\
    kids (fst (bloss s real)) = kids s.
  Proof. exact (@loss_is_max_all L child_restore_exact child_ask_pure num_laws). Qed.

  Theorem C15_improvement_strategy_all : forall ks st (h : list (op L)) n,
    let s := run true (init L ks st) h in
    failed s = false -> strat s = SImp ->
    forall pre tp i p v,
      In ((pre, tp), ((i, p), v)) (loop_trace (body_of true (strat s)) n s (total_points s)) ->
      exists ki ps vs, nth_error (kids pre) i = Some ki /\
        fst (ask L ki 1 false) = (p :: ps, v :: vs) /\
        forall j kj pj psj vj vsj, nth_error (kids pre) j = Some kj ->
          fst (ask L kj 1 false) = (pj :: psj, vj :: vsj) ->
          nltb L v vj = false /\ kgt L (vj, nth j tp 0) (v, nth i tp 0) = false.
  Proof. exact (@improvement_all L child_restore_exact child_ask_pure num_laws). Qed.

  Theorem C15_loss_strategy_all : forall ks st (h : list (op L)) n,
    let s := run true (init L ks st) h in
    failed s = false -> strat s = SLoss ->
    forall pre tp i p v,
      In ((pre, tp), ((i, p), v)) (loop_trace (body_of true (strat s)) n s (total_points s)) ->
      exists ki, nth_error (kids pre) i = Some ki /\
        forall j kj, nth_error (kids pre) j = Some kj ->
          nltb L (loss L ki false) (loss L kj false) = false /\
          kgt L (loss L kj false, nth j tp 0) (loss L ki false, nth i tp 0) = false.
  Proof. exact (@loss_all L child_restore_exact child_ask_pure num_laws). Qed.
End C15_tentative.

(* ------------------------------------------------------------------ *)
(* The code as it is (repaired = false) is NOT cache coherent: F2.
   Witnesses on the toy learner (loss = 10 - known - pending; proposes the
   smallest free natural):
   (a) loss(False); tell_pending(0, 5): _pending_loss[0] = 10, child says 9,
       and loss(real=False) returns 10 where the only child says 9;
   (b) tell_pending(0, 5); loss(False); remove_unfinished():
       _pending_loss[0] = 9, child says 10;
   (c) two children, tell_pending(1, 0); ask(1); remove_unfinished():
       _ask_cache[1] = ([1],[1]) but child 1 now offers 0.
   On the same histories the repaired model is coherent (C15_cache_coherent). *)
Notation TL := Toy.learner.
Definition F2a : list (op TL) := [Loss false; @TellPending TL 0 5].
Definition F2b : list (op TL) := [@TellPending TL 0 5; Loss false; RemoveUnfinished].
Definition F2c : list (op TL) := [@TellPending TL 1 0; Ask 1 true; RemoveUnfinished].

Theorem C15_cache_coherent_refuted_unfixed :
  (legal F2a = true /\
   let s := run false (init TL [Toy.init] SImp) F2a in
   failed s = false /\ pcache s 0 = Some 10 /\
   option_map (fun k => loss TL k false) (nth_error (kids s) 0) = Some 9 /\
   snd (bloss s false) = Some 10) /\
  (legal F2b = true /\
   let s := run false (init TL [Toy.init] SImp) F2b in
   failed s = false /\ pcache s 0 = Some 9 /\
   option_map (fun k => loss TL k false) (nth_error (kids s) 0) = Some 10) /\
  (legal F2c = true /\
   let s := run false (init TL [Toy.init; Toy.init] SImp) F2c in
   failed s = false /\ acache s 1 = Some ([1], [1]) /\
   option_map (fun k => fst (ask TL k 1 false)) (nth_error (kids s) 1) = Some ([0], [1])).
Proof. vm_compute. repeat split. Qed.

(* the toy learner satisfies the hypotheses of the positive theorems, and
   the repaired model is coherent on the three witnesses *)
Lemma toy_ask_pure : forall k : state TL, snd (ask TL k 1 false) = k.
Proof. intros k. cbn. destruct (Toy.t_ask k 1). reflexivity. Qed.

Example C15_example :
  let h : list (op TL) := [SetStrategy SNpoints; Ask 3 true; @Tell TL 0 0 7; Loss true; SetStrategy SCycle;
                           Ask 2 true; @Tell TL 1 0 3; SetStrategy SLoss; Ask 2 true; Loss false;
                           SetStrategy SImp; Ask 2 true; RemoveUnfinished; Loss false] in
  let s := run true (init TL [Toy.init; Toy.init; Toy.init] SImp) h in
  legal h = true /\ failed s = false /\ bnpoints s = 2 /\
  snd (bloss s false) = Some 10 /\
  pcache (run true (init TL [Toy.init] SImp) F2a) 0 = None /\
  snd (bloss (run true (init TL [Toy.init] SImp) F2a) false) = Some 9.
Proof. vm_compute. repeat split. Qed.

(* non-vacuity of [child_restore_exact]: the toy learner with an exact snapshot;
   a tentative ask(2) in the middle of a history answers like the committing
   one and leaves the state untouched *)
Definition TLx : Learner :=
  @mkLearner Toy.tst nat nat nat (list (nat * nat)) Nat.eqb Nat.ltb Nat.eqb 1000
    (ask TL) (GenericLearner.tell TL) (GenericLearner.tell_pending TL) (remove_unfinished TL)
    (loss TL) (npoints TL) (data TL) (pending TL) (fun old cur => old) (get_data TL) (set_data TL).

Example C15_tentative_example :
  let h : list (op TLx) := [SetStrategy SLoss; Ask 3 true; @Tell TLx 0 0 7; Loss false; Ask 2 false; Loss false] in
  let s := run true (init TLx [Toy.init; Toy.init] SImp) (firstn 4 h) in
  (forall old cur : state TLx, restore TLx old cur = old) /\
  fst (bask true s 2 false) = s /\
  map fst (snd (bask true s 2 false)) = map fst (snd (bask true s 2 true)) /\
  snd (bloss (run true (init TLx [Toy.init; Toy.init] SImp) h) false) = Some 9.
Proof.
  cbv zeta. split; [reflexivity|]. split.
  - apply (proj2 (@C15_tentative_ask_no_trace TLx (fun old cur => eq_refl) _ 2)); vm_compute; reflexivity.
  - vm_compute. split; reflexivity.
Qed.

Print Assumptions C15_routing.
Print Assumptions C15_aggregates.
Print Assumptions C15_npoints_strategy.
Print Assumptions C15_ask_is_trace.
Print Assumptions C15_cycle_strategy.
Print Assumptions C15_cache_coherent.
Print Assumptions C15_loss_is_max_of_children.
Print Assumptions C15_improvement_strategy.
Print Assumptions C15_loss_strategy.
Print Assumptions C15_cache_coherent_refuted_unfixed.
Print Assumptions C15_tentative_ask_no_trace.
Print Assumptions C15_routing_all.
Print Assumptions C15_cycle_strategy_all.
Print Assumptions C15_cache_coherent_all.
Print Assumptions C15_loss_is_max_of_children_all.
Print Assumptions C15_improvement_strategy_all.
Print Assumptions C15_loss_strategy_all.
