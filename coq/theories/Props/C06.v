(* Property C06 -- Runners account for every failed evaluation: bounded retries,
   nothing lost.  Statements only (see the reading guide in Props/C05.v).
   Counters over the trace, for a point id p:
     nsub p = evaluations of p started (futures submitted),
     nerr p = evaluations of p that raised,  nok p = that returned,
     ntell p = tells of p.  [c_retries c] is the retries argument. *)
From AV Require Import Base.Prelude Model.Runner Proofs.RunnerProofs.

Section C06.
  Variables P V L : Type.
  Variable lrn : learner P V L.
  Variable c : cfg.

  (* a point is evaluated at most retries+1 times *)
  Theorem C06_bounded_retries : forall l0 evs pid,
    nsub pid (tr (reach lrn c l0 evs)) <= c_retries c + 1.
  Proof. exact (@bounded_retries P V L lrn c). Qed.

  (* A submission step with n = max_tasks - #pending free slots resubmits,
     in the order of _to_retry, the first n point ids of _to_retry that are
     not in flight ([gf_R]); only if these are fewer than n ([gf_asks]) is the
     learner asked, and then for exactly the remainder [gf_m] = n - #retried;
     the new points are submitted after the retried ones. *)
  Theorem C06_retry_before_new : forall l0 evs,
    let s := reach lrn c l0 evs in
    ph s = AtGoal ->
    let s' := rstep lrn c s (Goal false) in
    tr s' = rev (map sub_ev (gf_subs lrn c s))
            ++ (if gf_asks c s then [TAsk (gf_m c s) (gf_new lrn c s)] else []) ++ tr s /\
    map (fun z : nat * nat * P => snd (fst z)) (gf_subs lrn c s) = gf_R c s ++ map fst (gf_new lrn c s) /\
    (forall p, In p (gf_R c s) -> aget p (retry s) <> None /\ cnt p (pvals s) = 0) /\
    (gf_asks c s = false -> gf_new lrn c s = []).
  Proof. exact (@retry_before_new P V L lrn c). Qed.

  (* gf_R, gf_asks, gf_m are what the text says *)
  Remark C06_retry_defs : forall (s : rst P V L),
    gf_R c s = firstn (get_max_tasks c - length (pend s)) (retry_candidates s) /\
    gf_asks c s = (length (gf_R c s) <? get_max_tasks c - length (pend s)) /\
    gf_m c s = get_max_tasks c - length (pend s) - length (gf_R c s) /\
    retry_candidates s = filter (fun pid => negb (nat_mem pid (map snd (pend s)))) (map fst (retry s)).
  Proof. intros s. repeat split. Qed.

  (* A tell of point id pid happens immediately after consuming a successful
     result of pid, with exactly that value; it is the FIRST success of pid
     and the first tell; afterwards pid is never submitted, completed or told
     again.  (A failure never leads to a tell: a TTell is always directly
     preceded by a TDone .. (Ok y).) *)
  Theorem C06_told_once_first_success : forall l0 evs later pid x y earlier,
    tr (reach lrn c l0 evs) = later ++ TTell pid x y :: earlier ->
    (exists fid older, earlier = TDone fid pid (Ok y) :: older /\ nok pid older = 0 /\ ntell pid older = 0) /\
    (forall e, In e later -> ~ about pid e).
  Proof. exact (@told_once_first_success P V L lrn c). Qed.

  (* A point id that has failed more than [retries] times is in
     runner.failed (= tracebacks \ to_retry), keeps its point in _id_to_point,
     is not in flight, and has been submitted exactly retries+1 times ... *)
  Theorem C06_failed_listed : forall l0 evs pid,
    let s := reach lrn c l0 evs in
    c_retries c < nerr pid (tr s) ->
    aget pid (tbs s) <> None /\ aget pid (retry s) = None /\ In pid (failed s) /\
    (exists x, aget pid (idp s) = Some x) /\ ~ In pid (pvals s) /\
    nerr pid (tr s) = c_retries c + 1 /\ nsub pid (tr s) = c_retries c + 1.
  Proof. exact (@failed_listed P V L lrn c). Qed.

  (* ... for ever: whatever happens afterwards it stays failed and is never resubmitted *)
  Theorem C06_failed_for_ever : forall l0 evs1 evs2 pid,
    c_retries c < nerr pid (tr (reach lrn c l0 evs1)) ->
    In pid (failed (reach lrn c l0 (evs1 ++ evs2))) /\
    nsub pid (tr (reach lrn c l0 (evs1 ++ evs2))) = nsub pid (tr (reach lrn c l0 evs1)).
  Proof. exact (@failed_for_ever P V L lrn c). Qed.

  (* raise_if_retries_exceeded: the error stop carries a point over the limit
     and occurs only when configured; when configured, any point over the
     limit stops the run; when not, processing results never raises. *)
  Theorem C06_raise_or_continue : forall l0 evs,
    let s := reach lrn c l0 evs in
    (forall p, failed_phase s p -> c_raise c = true /\ c_retries c < nerr p (tr s)) /\
    (c_raise c = true -> (exists p, c_retries c < nerr p (tr s)) ->
       exists p', failed_phase s p' /\ c_retries c < nerr p' (tr s)) /\
    (c_raise c = false -> ph s = InWait -> forall done, ph (rstep lrn c s (Wait done)) = AtGoal).
  Proof. exact (@raise_or_continue P V L lrn c). Qed.
End C06.

(* non-vacuity: AsyncRunner, ntasks=2, retries=1, no raise; point 0 fails twice
   (-> failed, never again), point 1 fails once and succeeds on the retry,
   which is submitted before new points are asked for. *)
Definition counter6 : learner nat nat nat :=
  mklearner (fun l n => (seq l n, l + n)) (fun l _ _ => l) (fun l => l).

Example C06_example :
  let c := mkcfg Async 2 1 1 false false in
  let evs := [Goal false; Wait [(0, Err); (1, Err)]; Goal false; Wait [(2, Err); (3, Ok 21)];
              Goal false; Wait [(4, Ok 22)]; Goal true; Shutdown []] in
  let s := reach counter6 c 0 evs in
  ph s = Stopped GoalMet true /\ failed s = [0] /\ retry s = [] /\
  history s = [TAsk 2 [(0, 0); (1, 1)]; TSubmit 0 0 0; TSubmit 1 1 1; TDone 0 0 Err; TDone 1 1 Err;
               TSubmit 2 0 0; TSubmit 3 1 1; TDone 2 0 Err; TDone 3 1 (Ok 21); TTell 1 1 21;
               TAsk 2 [(2, 2); (3, 3)]; TSubmit 4 2 2; TSubmit 5 3 3; TDone 4 2 (Ok 22); TTell 2 2 22;
               TRemove; TCancel 5] /\
  nsub 0 (tr s) = 2 /\ nerr 0 (tr s) = 2.
Proof. vm_compute. repeat split. Qed.

Print Assumptions C06_bounded_retries.
Print Assumptions C06_retry_before_new.
Print Assumptions C06_told_once_first_success.
Print Assumptions C06_failed_listed.
Print Assumptions C06_failed_for_ever.
Print Assumptions C06_raise_or_continue.
