(* Property C17 -- SequenceLearner: every element handed out once, in order;
   results in order.  This file contains only statements, each closed by
   [exact] of a lemma from Proofs/SeqProofs.v, and [Print Assumptions]. *)
From Coq Require Import ZArith.
From AV Require Import Base.Prelude Base.NatSet Model.Seq Proofs.SeqProofs.

Section C17.
  Variable V : Type.      (* values (and elements) are abstract: no equality, no hash *)

  (* along every legal history: to-do, pending and evaluated indices are three
     sorted duplicate-free lists that partition 0..n-1 *)
  Theorem C17_partition_inv : forall n (h : list (op V)),
    legal (init V n) h = true -> Inv (reach V n h).
  Proof. exact (@partition_inv V). Qed.

  (* ask returns, in increasing order, the first k indices that are neither
     evaluated nor pending *)
  Theorem C17_ask_increasing_prefix : forall n (h : list (op V)) k c,
    legal (init V n) h = true ->
    snd (ask (reach V n h) k c) = firstn k (remaining (reach V n h)).
  Proof. exact (@ask_increasing_prefix V). Qed.

  (* fewer than requested only when afterwards nothing is left to hand out *)
  Theorem C17_short_only_at_end : forall n (h : list (op V)) k,
    legal (init V n) h = true ->
    length (snd (ask (reach V n h) k true)) < k ->
    todo (fst (ask (reach V n h) k true)) = [] /\
    snd (ask (reach V n h) k true) = remaining (reach V n h).
  Proof. exact (@short_only_at_end V). Qed.

  (* an index handed out by a committing ask is not handed out again unless
     unfinished points were discarded in between *)
  Theorem C17_once : forall n (h1 : list (op V)) k1 (h2 : list (op V)) k2 c i,
    legal (init V n) h1 = true ->
    forallb (fun o => negb (is_discard o)) h2 = true ->
    In i (snd (ask (reach V n h1) k1 true)) ->
    ~ In i (snd (ask (run (fst (ask (reach V n h1) k1 true)) h2) k2 c)).
  Proof. exact (@once V). Qed.

  Theorem C17_done_iff_all : forall n (h : list (op V)),
    legal (init V n) h = true ->
    (done (reach V n h) = true <-> forall i, i < n -> In i (keys (reach V n h))).
  Proof. exact (@done_iff_all V). Qed.

  (* loss = (n - evaluated)/n, expected loss = (n - evaluated - pending)/n;
     the model returns the numerator, the harness compares num/n as doubles *)
  Theorem C17_loss_fraction : forall n (h : list (op V)),
    legal (init V n) h = true ->
    loss_num (reach V n h) true = Z.of_nat (n - npoints (reach V n h)) /\
    loss_num (reach V n h) false = Z.of_nat (n - (npoints (reach V n h) + length (pend (reach V n h)))) /\
    npoints (reach V n h) + length (pend (reach V n h)) <= n.
  Proof. exact (@loss_fraction V). Qed.

  (* when done, result() has one entry per element, entry k being the value
     most recently told for index k, whatever the arrival order *)
  Theorem C17_result_in_order : forall n (h : list (op V)),
    legal (init V n) h = true -> done (reach V n h) = true ->
    exists vs, result (reach V n h) = Some vs /\ length vs = n /\
               forall k, k < n -> nth_error vs k = last_told h k.
  Proof. exact (@result_in_order V). Qed.
End C17.

(* non-vacuity: a concrete history with out-of-order tells, a discard and a
   short final ask is legal and ends done *)
Example C17_example :
  let h := [Ask 2 true; Tell 1 10; Ask 5 true; RemoveUnfinished; Tell 0 7;
            Ask 1 true; Tell 3 9; Tell 2 8] in
  legal (init nat 4) h = true /\ done (reach nat 4 h) = true /\
  result (reach nat 4 h) = Some [7; 10; 8; 9].
Proof. vm_compute. repeat split. Qed.

Print Assumptions C17_partition_inv.
Print Assumptions C17_ask_increasing_prefix.
Print Assumptions C17_short_only_at_end.
Print Assumptions C17_once.
Print Assumptions C17_done_iff_all.
Print Assumptions C17_loss_fraction.
Print Assumptions C17_result_in_order.
