(* Property C19 -- A runner's log replays to the same learner.  Statements
   only (see the reading guide in Props/C05.v).
     [noerr t]        : no evaluation failed (no TDone .. Err in the trace);
     [logv t]         : the ask/tell calls made on the learner, in order, as
                        log entries (LAsk n / LTell x y);
     [log_nz lg]      : the log without its ("ask", 0) entries -- _get_futures
                        logs ("ask", n) before _ask, and _ask makes no call
                        when n = 0;
     [apply_trace l0 t] : the learner obtained from l0 by the ask / tell /
                        remove_unfinished calls of the trace;
     [replay_log lrn l lg] : Model/Runner.v's replay_log. *)
From AV Require Import Base.Prelude Model.Runner Proofs.RunnerProofs.

Section C19.
  Variables P V L : Type.
  Variable lrn : learner P V L.
  Variable c : cfg.

  (* the learner is what its call sequence makes of it (always), and with
     logging on and no failed evaluation the log is exactly that call
     sequence (ask and tell, complete and in order) *)
  Theorem C19_log_is_call_sequence : forall l0 evs,
    let s := reach lrn c l0 evs in
    lst s = apply_trace lrn l0 (tr s) /\
    (c_log c = true -> noerr (tr s) -> log_nz (log s) = logv (tr s)).
  Proof. exact (@log_is_call_sequence P V L lrn c). Qed.

  (* Replaying the log on the initial learner: while running, the replayed
     learner IS the runner's learner.  After the stop the runner's learner is
     the replayed one with remove_unfinished applied -- before the tells of the
     results that still arrived during shutdown (BlockingRunner only; lg2 is
     empty for AsyncRunner).  Hypothesis: ask(0) does not change the learner. *)
  Theorem C19_replay_same_state : forall l0 evs,
    let s := reach lrn c l0 evs in
    c_log c = true -> noerr (tr s) -> (forall l, snd (l_ask lrn l 0) = l) ->
    match ph s with
    | AtGoal | InWait | Stopped NoWorkers _ => lst s = replay_log lrn l0 (log s)
    | _ => exists lg1 lg2, log_nz (log s) = lg1 ++ lg2 /\
                           lst s = replay_log lrn (l_remove lrn (replay_log lrn l0 lg1)) lg2 /\
                           (forall a : logent P V, In a lg2 -> exists x y, a = LTell x y) /\
                           (c_kind c = Async -> lg2 = [])
    end.
  Proof. exact (@replay_same_state P V L lrn c). Qed.

  (* ... hence, for learners where discarding unfinished points commutes with
     telling and is idempotent: after remove_unfinished the replayed learner
     and the runner's learner are the same state (same data, loss, next asks) *)
  Theorem C19_replay_same_after_discard : forall l0 evs,
    let s := reach lrn c l0 evs in
    c_log c = true -> noerr (tr s) -> (forall l, snd (l_ask lrn l 0) = l) ->
    (forall l x y, l_remove lrn (l_tell lrn l x y) = l_tell lrn (l_remove lrn l) x y) ->
    (forall l, l_remove lrn (l_remove lrn l) = l_remove lrn l) ->
    l_remove lrn (lst s) = l_remove lrn (replay_log lrn l0 (log s)).
  Proof. exact (@replay_same_after_discard P V L lrn c). Qed.
End C19.

(* non-vacuity: a learner with real state (next point, points in flight, data)
   satisfying the three hypotheses; BlockingRunner run in which a result arrives
   during shutdown, after remove_unfinished; the log replays to the same
   learner after discarding. *)
Record ls := mkls { l_next : nat; l_inflight : list nat; l_data : list (nat * nat) }.
Definition slearner : learner nat nat ls :=
  mklearner
    (fun l n => (seq (l_next l) n, mkls (l_next l + n) (l_inflight l ++ seq (l_next l) n) (l_data l)))
    (fun l x y => mkls (l_next l) (nat_remove x (l_inflight l)) ((x, y) :: l_data l))
    (fun l => mkls (l_next l) [] (l_data l)).

Lemma slearner_hyps :
  (forall l, snd (l_ask slearner l 0) = l) /\
  (forall l x y, l_remove slearner (l_tell slearner l x y) = l_tell slearner (l_remove slearner l) x y) /\
  (forall l, l_remove slearner (l_remove slearner l) = l_remove slearner l).
Proof.
  repeat split.
  - intros [n i d]. cbn. rewrite app_nil_r, Nat.add_0_r. reflexivity.
Qed.

Example C19_example :
  let c := mkcfg Blocking 3 1 0 true true in
  let l0 := mkls 0 [] [] in
  let evs := [Goal false; Wait [(1, Ok 11)]; Goal false; Wait [(2, Ok 12)]; Goal true; Shutdown [(0, Ok 10)]] in
  let s := reach slearner c l0 evs in
  ph s = Stopped GoalMet true /\
  log s = [LAsk 3; LTell 1 11; LAsk 1; LTell 2 12; LTell 0 10] /\
  l_inflight (lst s) = [] /\ l_inflight (replay_log slearner l0 (log s)) = [3] /\
  l_remove slearner (lst s) = l_remove slearner (replay_log slearner l0 (log s)) /\
  l_data (lst s) = [(0, 10); (2, 12); (1, 11)] /\
  noerr (tr s).
Proof.
  vm_compute. do 6 (split; [reflexivity|]). intros f q H.
  repeat (destruct H as [H|H]; [discriminate|]). destruct H.
Qed.

Print Assumptions C19_log_is_call_sequence.
Print Assumptions C19_replay_same_state.
Print Assumptions C19_replay_same_after_discard.
