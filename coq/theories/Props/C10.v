(* Property C10 -- Telling is faithful bookkeeping: data, pending set and
   re-tells.  Statements only (proofs in Proofs/BookkeepingProofs.v), for the
   two hand-written learner models Model/Seq.v (SequenceLearner: a re-tell
   OVERWRITES) and Model/L1D.v (Learner1D: [tell] keeps the FIRST value; the
   rebuilding path of [tell_many] overwrites -- stated precisely below).
   The L1D theorems hold for every number type whose comparison satisfies
   [OrderLaws] (inhabited by Z: [C10_order_laws_Z]) and for every loss
   function [L].  Every other learner type and both wrappers are decided by
   the bookkeeping oracle of harness/avh/props/c10.py on the real classes. *)
From Coq Require Import ZArith.
From AV Require Import Base.Prelude Base.NatSet.
From AV Require Model.Seq Model.L1D Proofs.SeqProofs Proofs.BookkeepingProofs.
Import BookkeepingProofs.

Section C10_seq.
  Variable V : Type.
  Notation st := (Seq.st V).
  Notation op := (Seq.op V).
  Notation reach := (SeqProofs.reach V).
  Notation assoc := (SeqProofs.assoc V).

  (* along every legal history, [data] is the strictly increasing list of the
     told indices, index k carrying the value told LAST for k *)
  Theorem C10_seq_data_exact : forall n (h : list op), Seq.legal (Seq.init V n) h = true ->
    sorted (SeqProofs.keys (reach n h)) /\
    (forall k, assoc k (Seq.data (reach n h)) = SeqProofs.last_told h k) /\
    (forall k, In k (SeqProofs.keys (reach n h)) <-> SeqProofs.last_told h k <> None).
  Proof. exact (@SeqBK.seq_data_exact V). Qed.

  (* ... and those two facts determine the list *)
  Theorem C10_seq_data_determined : forall d1 d2 : list (nat * V),
    sorted (map fst d1) -> sorted (map fst d2) ->
    (forall k, assoc k d1 = assoc k d2) -> d1 = d2.
  Proof. exact (@SeqBK.data_determined V). Qed.

  Theorem C10_seq_told_not_pending : forall (s : st) i v, ~ In i (Seq.pend (Seq.tell s i v)).
  Proof. exact (@SeqBK.seq_told_not_pending V). Qed.

  Theorem C10_seq_data_pending_disjoint : forall n (h : list op), Seq.legal (Seq.init V n) h = true ->
    forall i, In i (Seq.pend (reach n h)) -> ~ In i (SeqProofs.keys (reach n h)).
  Proof. exact (@SeqBK.seq_data_pending_disjoint V). Qed.

  (* an index returned by a committing ask is pending, and stays pending along
     every continuation that neither tells it nor discards *)
  Theorem C10_seq_asked_is_pending : forall (s : st) k (h : list op) i,
    In i (snd (Seq.ask s k true)) -> forallb (SeqBK.keeps V i) h = true ->
    In i (Seq.pend (Seq.run (fst (Seq.ask s k true)) h)).
  Proof. exact (@SeqBK.seq_asked_is_pending V). Qed.

  (* npoints = number of distinct told indices (all histories) *)
  Theorem C10_seq_npoints : forall n (h : list op),
    Seq.npoints (reach n h) = length (SeqBK.told_set V h) /\
    NoDup (SeqBK.told_set V h) /\
    (forall k, In k (SeqBK.told_set V h) <-> exists v, In (Seq.Tell k v) h).
  Proof. exact (@SeqBK.seq_npoints V). Qed.

  (* telling a known index the value it already has changes nothing at all *)
  Theorem C10_seq_retell_noop : forall (s : st) i v,
    SeqProofs.Inv s -> assoc i (Seq.data s) = Some v -> Seq.tell s i v = s.
  Proof. exact (@SeqBK.seq_retell_noop V). Qed.

  Theorem C10_seq_discard : forall s : st,
    Seq.pend (Seq.remove_unfinished s) = [] /\
    Seq.data (Seq.remove_unfinished s) = Seq.data s /\
    Seq.loss_num (Seq.remove_unfinished s) false = Seq.loss_num (Seq.remove_unfinished s) true.
  Proof. exact (@SeqBK.seq_discard V). Qed.
End C10_seq.

Theorem C10_order_laws_Z : L1DBK.OrderLaws Z.ltb Z.eqb.
Proof. exact L1DBK.OrderLaws_Z. Qed.

Section C10_l1d.
  Variable num : Type.
  Variables (add sub mul div : num -> num -> num).
  Variables (ltb eqb : num -> num -> bool).
  Variables (zero one inf neg_inf : num).
  Variable is_nan : num -> bool.
  Variable is_inf : num -> bool.
  Variable round12 : num -> num.
  Variable of_nat : nat -> num.
  Variable L : list (option num) -> list (option (L1D.Y num)) -> num.
  Variable P : L1D.params num.
  Hypothesis OL : L1DBK.OrderLaws ltb eqb.

  Notation st := (L1D.st num).
  Notation op := (L1D.op num).
  Notation tell := (@L1D.tell num sub mul div ltb eqb zero one inf neg_inf is_nan is_inf round12 L P).
  Notation tell_pending := (@L1D.tell_pending num sub mul div ltb eqb zero one inf L P).
  Notation tell_many_batch := (@L1D.tell_many_batch num sub mul div ltb eqb zero one inf is_nan L P).
  Notation ask := (@L1D.ask num add sub mul div ltb eqb zero one inf is_nan is_inf round12 of_nat L P).
  Notation run := (@L1D.run num add sub mul div ltb eqb zero one inf neg_inf is_nan is_inf round12 of_nat L P).
  Notation loss := (@L1D.loss num sub div ltb eqb inf is_nan is_inf round12 P).
  Notation dget := (@L1D.dget num eqb).
  Notation init := (@L1D.init num sub zero inf neg_inf P).
  Notation incremental := (@L1DBK.incremental num add sub mul div ltb eqb zero one inf neg_inf is_nan is_inf round12 of_nat L P).

  (* the bookkeeping invariant -- keys of data strictly increasing, pending
     strictly increasing, the two disjoint -- holds along ALL histories *)
  Theorem C10_l1d_inv : forall h : list op, L1DBK.BInv ltb (run init h).
  Proof. exact (fun h => L1DBK.binv_run add sub mul div zero one inf neg_inf is_nan is_inf round12 of_nat L P OL h
                           (L1DBK.binv_init sub ltb zero inf neg_inf P)). Qed.

  (* histories whose tell_many calls all take the incremental path: data maps
     each told point to the value of its FIRST tell; nothing else is in data *)
  Theorem C10_l1d_data_exact : forall (h : list op) x, incremental init h = true ->
    dget x (L1D.data (run init h)) = L1DBK.first_told eqb h x /\
    L1DBK.lsorted ltb (L1DBK.dkeys (run init h)) /\
    (In x (L1DBK.dkeys (run init h)) <-> L1DBK.first_told eqb h x <> None).
  Proof. exact (L1DBK.l1d_data_exact add sub mul div zero one inf neg_inf is_nan is_inf round12 of_nat L P OL). Qed.

  (* the rebuilding path of tell_many overwrites: afterwards x carries the value
     of its LAST occurrence in the batch, else what it had (a remark recorded
     by DESIGN section 7 C10, not claimed as a violation) *)
  Theorem C10_l1d_batch_overwrites : forall (s : st) xys x,
    dget x (L1D.data (tell_many_batch s xys)) = fold_left (L1DBK.last_xy eqb x) xys (dget x (L1D.data s)).
  Proof. exact (L1DBK.l1d_batch_overwrites sub mul div zero one inf is_nan L P OL). Qed.

  Theorem C10_l1d_told_not_pending : forall (s : st) x y,
    L1DBK.BInv ltb s -> ~ In x (L1D.pend (tell s x y)).
  Proof. exact (fun s => L1DBK.l1d_told_not_pending add sub mul div zero one inf neg_inf is_nan is_inf round12 L P OL (s:=s)). Qed.

  Theorem C10_l1d_data_pending_disjoint : forall (h : list op) x,
    In x (L1D.pend (run init h)) -> dget x (L1D.data (run init h)) = None.
  Proof. exact (L1DBK.l1d_data_pending_disjoint add sub mul div zero one inf neg_inf is_nan is_inf round12 of_nat L P OL). Qed.

  (* a not yet evaluated point returned by a committing ask is pending and stays
     so along every continuation that neither tells it nor discards *)
  Theorem C10_l1d_asked_is_pending : forall (s : st) n (h : list op) x,
    In x (fst (snd (ask s n true))) -> dget x (L1D.data s) = None ->
    forallb (L1DBK.keeps eqb x) h = true ->
    In x (L1D.pend (run (fst (ask s n true)) h)).
  Proof. exact (L1DBK.l1d_asked_is_pending add sub mul div zero one inf neg_inf is_nan is_inf round12 of_nat L P OL). Qed.

  (* npoints = len(data) = number of distinct told points, all histories *)
  Theorem C10_l1d_npoints : forall h : list op,
    length (L1D.data (run init h)) = length (L1DBK.told_set ltb eqb h) /\
    NoDup (L1DBK.told_set ltb eqb h) /\
    (forall x, In x (L1DBK.told_set ltb eqb h) <-> exists o, In o h /\ L1DBK.tells x o).
  Proof. exact (L1DBK.l1d_npoints add sub mul div zero one inf neg_inf is_nan is_inf round12 of_nat L P OL). Qed.

  (* telling (or marking pending) a known point changes nothing, whatever the value *)
  Theorem C10_l1d_retell_noop : forall (s : st) x y' v, dget x (L1D.data s) = Some v ->
    tell s x y' = s /\ tell_pending s x = s.
  Proof. exact (fun s x y' v => L1DBK.l1d_retell_noop sub mul div ltb eqb zero one inf neg_inf is_nan is_inf round12 L P s x y' (v:=v)). Qed.

  Theorem C10_l1d_discard : forall s : st,
    L1D.pend (L1D.remove_unfinished s) = [] /\
    L1D.data (L1D.remove_unfinished s) = L1D.data s /\
    L1D.losc (L1D.remove_unfinished s) = L1D.los (L1D.remove_unfinished s) /\
    loss (L1D.remove_unfinished s) false = loss (L1D.remove_unfinished s) true.
  Proof. exact (L1DBK.l1d_discard sub div ltb eqb inf is_nan is_inf round12 P). Qed.
End C10_l1d.

(* non-vacuity (Seq): legal history with an unsolicited tell, a re-tell with a
   different value (overwrites), a discard *)
Example C10_example_seq :
  let h := [Seq.Ask 3 true; Seq.Tell 1 10; Seq.Tell 4 40; Seq.Tell 1 11; Seq.RemoveUnfinished] in
  Seq.legal (Seq.init nat 5) h = true /\
  Seq.data (SeqProofs.reach nat 5 h) = [(1, 11); (4, 40)] /\
  Seq.pend (SeqProofs.reach nat 5 h) = [] /\ SeqBK.told_set nat h = [1; 4].
Proof. vm_compute. repeat split. Qed.

(* non-vacuity (L1D over Z, loss function constantly 1): an incremental
   history with a committing ask, a tell of a pending point, a re-tell with a
   different value (ignored) and an unsolicited point *)
Example C10_example_l1d :
  let P := L1D.mkparams (0%Z) (8%Z) (0%Z) 0 (2%Z) in
  let Lc := fun (_ : list (option Z)) (_ : list (option (L1D.Y Z))) => 1%Z in
  let run := @L1D.run Z Z.add Z.sub Z.mul Z.div Z.ltb Z.eqb 0%Z 1%Z 1000000%Z (-1000000)%Z
                      (fun _ => false) (fun z => Z.eqb (Z.abs z) 1000000) (fun z => z) Z.of_nat Lc P in
  let init := @L1D.init Z Z.sub 0%Z 1000000%Z (-1000000)%Z P in
  let h := [L1D.Ask 2 true; L1D.Tell 0%Z (L1D.YS 5%Z); L1D.Tell 0%Z (L1D.YS 6%Z);
            L1D.Tell 3%Z (L1D.YS 9%Z); L1D.Ask 1 false] in
  @L1DBK.incremental Z Z.add Z.sub Z.mul Z.div Z.ltb Z.eqb 0%Z 1%Z 1000000%Z (-1000000)%Z
        (fun _ => false) (fun z => Z.eqb (Z.abs z) 1000000) (fun z => z) Z.of_nat Lc P init h = true /\
  L1D.data (run init h) = [(0%Z, L1D.YS 5%Z); (3%Z, L1D.YS 9%Z)] /\
  L1D.pend (run init h) = [8%Z] /\
  L1DBK.first_told Z.eqb h 0%Z = Some (L1D.YS 5%Z).
Proof. vm_compute. repeat split. Qed.

Print Assumptions C10_seq_data_exact.
Print Assumptions C10_seq_data_determined.
Print Assumptions C10_seq_told_not_pending.
Print Assumptions C10_seq_data_pending_disjoint.
Print Assumptions C10_seq_asked_is_pending.
Print Assumptions C10_seq_npoints.
Print Assumptions C10_seq_retell_noop.
Print Assumptions C10_seq_discard.
Print Assumptions C10_order_laws_Z.
Print Assumptions C10_l1d_inv.
Print Assumptions C10_l1d_data_exact.
Print Assumptions C10_l1d_batch_overwrites.
Print Assumptions C10_l1d_told_not_pending.
Print Assumptions C10_l1d_data_pending_disjoint.
Print Assumptions C10_l1d_asked_is_pending.
Print Assumptions C10_l1d_npoints.
Print Assumptions C10_l1d_retell_noop.
Print Assumptions C10_l1d_discard.
