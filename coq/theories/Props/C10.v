(* Property C10 -- Telling is faithful bookkeeping: data, pending set and
   re-tells.  Statements only (proofs in Proofs/BookkeepingProofs.v), for the
   two hand-written learner models Model/Seq.v (SequenceLearner: a re-tell
   OVERWRITES) and Model/L1D.v (Learner1D: [tell] keeps the FIRST value; the
   rebuilding path of [tell_many] overwrites -- stated precisely below).
   The L1D theorems hold for every number type whose comparison satisfies
   [OrderLaws] (inhabited by Z: [C10_order_laws_Z]) and for every loss
   function [L].  Every other learner type and both wrappers are decided by
   the bookkeeping oracle of harness/avh/props/c10.py on the real classes. *)
From Coq Require Import ZArith.
From AV Require Import Base.Prelude Base.NatSet.
From AV Require Model.Seq Model.L1D Proofs.SeqProofs Proofs.BookkeepingProofs.
From AV Require Model.AvgNum Model.Avg Proofs.AvgProofs Proofs.BookkeepingAvg.
From AV Require Model.Avg1D Model.Avg1DPend Proofs.BookkeepingAvg1D.
From AV Require Model.GenericLearner Model.DataSaver Model.Balancing Proofs.DataSaverProofs Proofs.BalancingCoh.
From AV Require Proofs.BookkeepingDataSaver Proofs.BookkeepingBalancing.
From AV Require Model.Integrator Proofs.IntegratorProofs Proofs.BookkeepingIntegrator.
From AV Require Model.Tri Model.LND Proofs.BookkeepingLND.
Import BookkeepingProofs.

Section C10_seq.
  Variable V : Type.
  Notation st := (Seq.st V).
  Notation op := (Seq.op V).
  Notation reach := (SeqProofs.reach V).
  Notation assoc := (SeqProofs.assoc V).

  (* along every legal history, [data] is the strictly increasing list of the
     told indices, index k carrying the value told LAST for k *)
  Theorem C10_seq_data_exact : forall n (h : list op), Seq.legal (Seq.init V n) h = true ->
    sorted (SeqProofs.keys (reach n h)) /\
    (forall k, assoc k (Seq.data (reach n h)) = SeqProofs.last_told h k) /\
    (forall k, In k (SeqProofs.keys (reach n h)) <-> SeqProofs.last_told h k <> None).
  Proof. exact (@SeqBK.seq_data_exact V). Qed.

  (* ... and those two facts determine the list *)
  Theorem C10_seq_data_determined : forall d1 d2 : list (nat * V),
    sorted (map fst d1) -> sorted (map fst d2) ->
    (forall k, assoc k d1 = assoc k d2) -> d1 = d2.
  Proof. exact (@SeqBK.data_determined V). Qed.

  Theorem C10_seq_told_not_pending : forall (s : st) i v, ~ In i (Seq.pend (Seq.tell s i v)).
  Proof. exact (@SeqBK.seq_told_not_pending V). Qed.

  Theorem C10_seq_data_pending_disjoint : forall n (h : list op), Seq.legal (Seq.init V n) h = true ->
    forall i, In i (Seq.pend (reach n h)) -> ~ In i (SeqProofs.keys (reach n h)).
  Proof. exact (@SeqBK.seq_data_pending_disjoint V). Qed.

  (* an index returned by a committing ask is pending, and stays pending along
     every continuation that neither tells it nor discards *)
  Theorem C10_seq_asked_is_pending : forall (s : st) k (h : list op) i,
    In i (snd (Seq.ask s k true)) -> forallb (SeqBK.keeps V i) h = true ->
    In i (Seq.pend (Seq.run (fst (Seq.ask s k true)) h)).
  Proof. exact (@SeqBK.seq_asked_is_pending V). Qed.

  (* npoints = number of distinct told indices (all histories) *)
  Theorem C10_seq_npoints : forall n (h : list op),
    Seq.npoints (reach n h) = length (SeqBK.told_set V h) /\
    NoDup (SeqBK.told_set V h) /\
    (forall k, In k (SeqBK.told_set V h) <-> exists v, In (Seq.Tell k v) h).
  Proof. exact (@SeqBK.seq_npoints V). Qed.

  (* telling a known index the value it already has changes nothing at all *)
  Theorem C10_seq_retell_noop : forall (s : st) i v,
    SeqProofs.Inv s -> assoc i (Seq.data s) = Some v -> Seq.tell s i v = s.
  Proof. exact (@SeqBK.seq_retell_noop V). Qed.

  Theorem C10_seq_discard : forall s : st,
    Seq.pend (Seq.remove_unfinished s) = [] /\
    Seq.data (Seq.remove_unfinished s) = Seq.data s /\
    Seq.loss_num (Seq.remove_unfinished s) false = Seq.loss_num (Seq.remove_unfinished s) true.
  Proof. exact (@SeqBK.seq_discard V). Qed.
End C10_seq.

Theorem C10_order_laws_Z : L1DBK.OrderLaws Z.ltb Z.eqb.
Proof. exact L1DBK.OrderLaws_Z. Qed.

Section C10_l1d.
  Variable num : Type.
  Variables (add sub mul div : num -> num -> num).
  Variables (ltb eqb : num -> num -> bool).
  Variables (zero one inf neg_inf : num).
  Variable is_nan : num -> bool.
  Variable is_inf : num -> bool.
  Variable round12 : num -> num.
  Variable of_nat : nat -> num.
  Variable L : list (option num) -> list (option (L1D.Y num)) -> num.
  Variable P : L1D.params num.
  Hypothesis OL : L1DBK.OrderLaws ltb eqb.

  Notation st := (L1D.st num).
  Notation op := (L1D.op num).
  Notation tell := (@L1D.tell num sub mul div ltb eqb zero one inf neg_inf is_nan is_inf round12 L P).
  Notation tell_pending := (@L1D.tell_pending num sub mul div ltb eqb zero one inf L P).
  Notation tell_many_batch := (@L1D.tell_many_batch num sub mul div ltb eqb zero one inf is_nan L P).
  Notation ask := (@L1D.ask num add sub mul div ltb eqb zero one inf is_nan is_inf round12 of_nat L P).
  Notation run := (@L1D.run num add sub mul div ltb eqb zero one inf neg_inf is_nan is_inf round12 of_nat L P).
  Notation loss := (@L1D.loss num sub div ltb eqb inf is_nan is_inf round12 P).
  Notation dget := (@L1D.dget num eqb).
  Notation init := (@L1D.init num sub zero inf neg_inf P).
  Notation incremental := (@L1DBK.incremental num add sub mul div ltb eqb zero one inf neg_inf is_nan is_inf round12 of_nat L P).

  (* the bookkeeping invariant -- keys of data strictly increasing, pending
     strictly increasing, the two disjoint -- holds along ALL histories *)
  Theorem C10_l1d_inv : forall h : list op, L1DBK.BInv ltb (run init h).
  Proof. exact (fun h => L1DBK.binv_run add sub mul div zero one inf neg_inf is_nan is_inf round12 of_nat L P OL h
                           (L1DBK.binv_init sub ltb zero inf neg_inf P)). Qed.

  (* histories whose tell_many calls all take the incremental path: data maps
     each told point to the value of its FIRST tell; nothing else is in data *)
  Theorem C10_l1d_data_exact : forall (h : list op) x, incremental init h = true ->
    dget x (L1D.data (run init h)) = L1DBK.first_told eqb h x /\
    L1DBK.lsorted ltb (L1DBK.dkeys (run init h)) /\
    (In x (L1DBK.dkeys (run init h)) <-> L1DBK.first_told eqb h x <> None).
  Proof. exact (L1DBK.l1d_data_exact add sub mul div zero one inf neg_inf is_nan is_inf round12 of_nat L P OL). Qed.

  (* the rebuilding path of tell_many overwrites: afterwards x carries the value
     of its LAST occurrence in the batch, else what it had (a remark recorded
     by DESIGN section 7 C10, not claimed as a violation) *)
  Theorem C10_l1d_batch_overwrites : forall (s : st) xys x,
    dget x (L1D.data (tell_many_batch s xys)) = fold_left (L1DBK.last_xy eqb x) xys (dget x (L1D.data s)).
  Proof. exact (L1DBK.l1d_batch_overwrites sub mul div zero one inf is_nan L P OL). Qed.

  Theorem C10_l1d_told_not_pending : forall (s : st) x y,
    L1DBK.BInv ltb s -> ~ In x (L1D.pend (tell s x y)).
  Proof. exact (fun s => L1DBK.l1d_told_not_pending add sub mul div zero one inf neg_inf is_nan is_inf round12 L P OL (s:=s)). Qed.

  Theorem C10_l1d_data_pending_disjoint : forall (h : list op) x,
    In x (L1D.pend (run init h)) -> dget x (L1D.data (run init h)) = None.
  Proof. exact (L1DBK.l1d_data_pending_disjoint add sub mul div zero one inf neg_inf is_nan is_inf round12 of_nat L P OL). Qed.

  (* a not yet evaluated point returned by a committing ask is pending and stays
     so along every continuation that neither tells it nor discards *)
  Theorem C10_l1d_asked_is_pending : forall (s : st) n (h : list op) x,
    In x (fst (snd (ask s n true))) -> dget x (L1D.data s) = None ->
    forallb (L1DBK.keeps eqb x) h = true ->
    In x (L1D.pend (run (fst (ask s n true)) h)).
  Proof. exact (L1DBK.l1d_asked_is_pending add sub mul div zero one inf neg_inf is_nan is_inf round12 of_nat L P OL). Qed.

  (* npoints = len(data) = number of distinct told points, all histories *)
  Theorem C10_l1d_npoints : forall h : list op,
    length (L1D.data (run init h)) = length (L1DBK.told_set ltb eqb h) /\
    NoDup (L1DBK.told_set ltb eqb h) /\
    (forall x, In x (L1DBK.told_set ltb eqb h) <-> exists o, In o h /\ L1DBK.tells x o).
  Proof. exact (L1DBK.l1d_npoints add sub mul div zero one inf neg_inf is_nan is_inf round12 of_nat L P OL). Qed.

  (* telling (or marking pending) a known point changes nothing, whatever the value *)
  Theorem C10_l1d_retell_noop : forall (s : st) x y' v, dget x (L1D.data s) = Some v ->
    tell s x y' = s /\ tell_pending s x = s.
  Proof. exact (fun s x y' v => L1DBK.l1d_retell_noop sub mul div ltb eqb zero one inf neg_inf is_nan is_inf round12 L P s x y' (v:=v)). Qed.

  Theorem C10_l1d_discard : forall s : st,
    L1D.pend (L1D.remove_unfinished s) = [] /\
    L1D.data (L1D.remove_unfinished s) = L1D.data s /\
    L1D.losc (L1D.remove_unfinished s) = L1D.los (L1D.remove_unfinished s) /\
    loss (L1D.remove_unfinished s) false = loss (L1D.remove_unfinished s) true.
  Proof. exact (L1DBK.l1d_discard sub div ltb eqb inf is_nan is_inf round12 P). Qed.
End C10_l1d.

(* ---------------------------------------------------------------------- *)
(* AverageLearner (Model/Avg.v; [tell] keeps the FIRST value of a seed), every
   number structure [N], every configuration [c].  All histories are over the
   model's ops: ask (committing or not), tell, tell_pending, remove_unfinished
   ([BaseLearner.tell_many] is a loop of [tell]). *)
Section C10_avg.
  Variable N : AvgNum.NumOps.
  Notation st := (Avg.st N).
  Notation op := (Avg.op N).

  (* ALL histories: data maps each told seed to the value of its first tell and
     holds nothing else; every seed once *)
  Theorem C10_avg_data_exact : forall (c : Avg.cfg N) (h : list op) seed,
    Avg.lookup N seed (Avg.data (Avg.reach c h)) = Avg.first_told h seed /\
    NoDup (Avg.keys (Avg.reach c h)) /\
    (In seed (Avg.keys (Avg.reach c h)) <-> Avg.first_told h seed <> None).
  Proof. exact (@BookkeepingAvg.avg_data_exact N). Qed.

  (* post-condition of tell, every state: the told seed is not pending -- unless
     it was known AND pending before, which only [tell_pending] of a known seed
     produces (AverageLearner.tell_pending has no guard; the reading of DESIGN
     section 7 C10) *)
  Theorem C10_avg_told_not_pending : forall (s : st) k v,
    (In k (Avg.keys s) -> ~ In k (Avg.pend s)) -> ~ In k (Avg.pend (Avg.tell s k v)).
  Proof. exact (@BookkeepingAvg.avg_told_not_pending N). Qed.

  (* along every history that marks only unknown seeds as pending (committing
     asks of any size included: they hand out fresh seeds), data and the pending
     set are disjoint *)
  Theorem C10_avg_data_pending_disjoint : forall (c : Avg.cfg N) (h : list op),
    BookkeepingAvg.polite c (Avg.init N) h = true ->
    forall k, In k (Avg.pend (Avg.reach c h)) -> ~ In k (Avg.keys (Avg.reach c h)).
  Proof. exact (@BookkeepingAvg.avg_data_pending_disjoint N). Qed.

  (* a seed returned by a committing ask is pending and stays so along every
     continuation that neither tells it nor discards (every state) *)
  Theorem C10_avg_asked_is_pending : forall (c : Avg.cfg N) (s : st) n hint (h : list op) i,
    In i (BookkeepingAvg.asked_points (snd (Avg.ask c s n true hint))) ->
    forallb (BookkeepingAvg.keeps i) h = true ->
    In i (Avg.pend (Avg.run c (fst (Avg.ask c s n true hint)) h)).
  Proof. exact (@BookkeepingAvg.avg_asked_is_pending N). Qed.

  (* npoints = len(data) = number of distinct told seeds, ALL histories *)
  Theorem C10_avg_npoints : forall (c : Avg.cfg N) (h : list op),
    Avg.npoints (Avg.reach c h) = length (BookkeepingAvg.told_set h) /\
    length (Avg.data (Avg.reach c h)) = length (BookkeepingAvg.told_set h) /\
    NoDup (BookkeepingAvg.told_set h) /\
    (forall k, In k (BookkeepingAvg.told_set h) <-> exists v, In (Avg.Tell N k v) h).
  Proof. exact (@BookkeepingAvg.avg_npoints N). Qed.

  (* telling a known seed again changes nothing at all, whatever the value *)
  Theorem C10_avg_retell_noop : forall (s : st) k v' w,
    Avg.lookup N k (Avg.data s) = Some w -> Avg.tell s k v' = s.
  Proof. exact (@BookkeepingAvg.avg_retell_noop N). Qed.

  Theorem C10_avg_discard : forall (c : Avg.cfg N) (s : st),
    Avg.pend (Avg.remove_unfinished s) = [] /\
    Avg.data (Avg.remove_unfinished s) = Avg.data s /\
    Avg.npoints (Avg.remove_unfinished s) = Avg.npoints s /\
    Avg.loss c (Avg.remove_unfinished s) false = Avg.loss c (Avg.remove_unfinished s) true.
  Proof. exact (@BookkeepingAvg.avg_discard N). Qed.
End C10_avg.

(* ---------------------------------------------------------------------- *)
(* AverageLearner1D: Model/Avg1D.v with the pending-point overlay
   Model/Avg1DPend.v; points are (seed, x); [tell] keeps the FIRST value of a
   (seed, x).  Generic in the number structure [N]; the theorems that compare
   abscissae need == on abscissae to be an equivalence ([EqLaws]; inhabited by
   the integers: C10_eqlaws_Z; true of doubles except NaN, which the bounds
   check excludes).  "legal" is C16's quantifier domain of the sample model
   (abscissae in bounds; a batch is a non-empty dict; ask n >= 1).
   Not modelled: loss() -- hence C10_avg1d_discard_partial. *)
Theorem C10_eqlaws_Z : BookkeepingAvg1D.EqLaws BookkeepingAvg.ZOps.
Proof. exact BookkeepingAvg1D.ZOps_eqlaws. Qed.

Section C10_avg1d.
  Variable N : AvgNum.NumOps.
  Variable tppf : nat -> AvgNum.num N.
  Hypothesis EL : BookkeepingAvg1D.EqLaws N.
  Notation pst := (Avg1DPend.pst N).
  Notation pop := (Avg1DPend.pop N).
  Notation key := (Avg1DPend.key N).
  Notation pstep := (Avg1DPend.pstep tppf).
  Notation prun := (Avg1DPend.prun tppf).
  Notation preach := (Avg1DPend.preach tppf).
  Notation legalh c h := (Avg1D.legal tppf c (Avg1D.init N) (Avg1DPend.base_ops h) = true).
  Notation told_keys h := (flat_map (@Avg1DPend.told_keys_op N) (Avg1DPend.flat (Avg1DPend.base_ops h))).

  (* the samples held at x are exactly the samples told at (an abscissa == to)
     x: each seed once, with the value of its first tell, in order of first tell *)
  Theorem C10_avg1d_data_exact : forall (c : Avg1D.cfg N) (h : list pop) x, legalh c h ->
    Avg1DPend.samples_at x (Avg1DPend.base (preach c h)) =
    Avg1DPend.spec_samples (Avg1DPend.flat (Avg1DPend.base_ops h)) x.
  Proof. exact (@BookkeepingAvg1D.a1d_data_exact N tppf EL). Qed.

  (* (seed, x) has a value iff it was told; x is in data iff a sample was told there *)
  Theorem C10_avg1d_told_exact : forall (c : Avg1D.cfg N) (h : list pop), legalh c h ->
    (forall k : key, Avg1DPend.toldb (Avg1DPend.base (preach c h)) k = existsb (Avg1DPend.keqb k) (told_keys h)) /\
    (forall x, Avg1D.find_pt x (Avg1DPend.base (preach c h)) <> None <->
               exists k : key, In k (told_keys h) /\ AvgNum.n_eqb N x (snd k) = true).
  Proof.
    exact (fun c h Hl => conj (fun k => @BookkeepingAvg1D.a1d_told_exact N tppf EL c h k Hl)
                              (fun x => @BookkeepingAvg1D.a1d_abscissae_exact N tppf EL c h x Hl)).
  Qed.

  (* post-conditions of tell / tell_many_at_point / tell_many, every state: the
     told (seed, x) are not pending (no laws needed) *)
  Theorem C10_avg1d_told_not_pending :
    (forall (c : Avg1D.cfg N) (s : pst) seed x y,
       Avg1DPend.pmem (seed, x) (Avg1DPend.pend (fst (pstep c s (Avg1DPend.PTell seed x y)))) = false) /\
    (forall (c : Avg1D.cfg N) (s : pst) x l m seed, Avg1D.in_bounds c x = true -> In seed (map fst l) ->
       Avg1DPend.pmem (seed, x) (Avg1DPend.pend (fst (pstep c s (Avg1DPend.PTellManyAt x l m)))) = false) /\
    (forall (c : Avg1D.cfg N) (s : pst) trip hints seed x,
       forallb (fun e => Avg1D.in_bounds c (snd (fst e))) trip = true -> (exists y, In (seed, x, y) trip) ->
       Avg1DPend.pmem (seed, x) (Avg1DPend.pend (fst (pstep c s (Avg1DPend.PTellMany trip hints)))) = false).
  Proof.
    exact (conj (@BookkeepingAvg1D.a1d_told_not_pending N tppf)
          (conj (@BookkeepingAvg1D.a1d_told_not_pending_batch N tppf)
                (@BookkeepingAvg1D.a1d_told_not_pending_many N tppf))).
  Qed.

  (* data and pending are disjoint along every legal history that marks only
     (seed, x) without a value as pending AND in which the seeds at every
     abscissa are consecutive (all below the count there) whenever a committing
     ask is made.  The last hypothesis excludes exactly the trigger of finding
     C10:F22; without it the statement is false of the model and of the code
     (C10_avg1d_commit_hands_out_told_refuted). *)
  Theorem C10_avg1d_data_pending_disjoint : forall (c : Avg1D.cfg N) (h : list pop),
    legalh c h -> Avg1DPend.polite tppf c (Avg1DPend.pinit N) h = true ->
    Avg1DPend.consec_at_asks tppf c (Avg1DPend.pinit N) h = true ->
    forall k : key, Avg1DPend.pmem k (Avg1DPend.pend (preach c h)) = true ->
                    Avg1DPend.toldb (Avg1DPend.base (preach c h)) k = false.
  Proof. exact (@BookkeepingAvg1D.a1d_data_pending_disjoint N tppf EL). Qed.

  (* a (seed, x) returned by a committing ask is pending and stays so along
     every continuation that neither tells it nor discards (every state) *)
  Theorem C10_avg1d_asked_is_pending : forall (c : Avg1D.cfg N) (s : pst) n hint (h : list pop) (k : key),
    In k (Avg1DPend.asked (snd (pstep c s (Avg1DPend.PAsk n true hint)))) ->
    forallb (BookkeepingAvg1D.keeps k) h = true ->
    Avg1DPend.pmem k (Avg1DPend.pend (prun c (fst (pstep c s (Avg1DPend.PAsk n true hint))) h)) = true.
  Proof. exact (@BookkeepingAvg1D.a1d_asked_is_pending N tppf EL). Qed.

  (* nsamples (the sum of _number_samples) = number of distinct told (seed, x) *)
  Theorem C10_avg1d_nsamples : forall (c : Avg1D.cfg N) (h : list pop), legalh c h ->
    Avg1D.nsamples (Avg1DPend.base (preach c h)) =
      length (Avg1DPend.told_set (Avg1DPend.flat (Avg1DPend.base_ops h))) /\
    (forall k : key, Avg1DPend.pmem k (Avg1DPend.told_set (Avg1DPend.flat (Avg1DPend.base_ops h))) =
                     existsb (Avg1DPend.keqb k) (told_keys h)).
  Proof. exact (@BookkeepingAvg1D.a1d_nsamples N tppf EL). Qed.

  (* telling a (seed, x) that has a value (and is not pending) changes nothing, whatever the value *)
  Theorem C10_avg1d_retell_noop : forall (c : Avg1D.cfg N) (s : pst) seed x y,
    Avg1DPend.toldb (Avg1DPend.base s) (seed, x) = true -> Avg1DPend.pmem (seed, x) (Avg1DPend.pend s) = false ->
    fst (pstep c s (Avg1DPend.PTell seed x y)) = s.
  Proof. exact (@BookkeepingAvg1D.a1d_retell_noop N tppf). Qed.

  (* discard: pending empty, samples untouched (the two losses: not modelled) *)
  Theorem C10_avg1d_discard_partial : forall (c : Avg1D.cfg N) (s : pst),
    Avg1DPend.pend (fst (pstep c s Avg1DPend.PRemoveUnfinished)) = [] /\
    Avg1DPend.base (fst (pstep c s Avg1DPend.PRemoveUnfinished)) = Avg1DPend.base s.
  Proof. exact (@BookkeepingAvg1D.a1d_discard N tppf). Qed.
End C10_avg1d.

(* finding C10:F22 on the model (integers): legal, polite history; seeds 0 and
   2 at x = 5; the committing ask(1) returns (2, 5), which has a value, and
   marks it pending *)
Theorem C10_avg1d_commit_hands_out_told_refuted :
  exists (c : Avg1D.cfg BookkeepingAvg.ZOps) (h : list (Avg1DPend.pop BookkeepingAvg.ZOps))
         (k : Avg1DPend.key BookkeepingAvg.ZOps),
    let t : nat -> AvgNum.num BookkeepingAvg.ZOps := fun _ : nat => 1%Z in
    Avg1D.legal t c (Avg1D.init BookkeepingAvg.ZOps) (Avg1DPend.base_ops h) = true /\
    Avg1DPend.polite t c (Avg1DPend.pinit BookkeepingAvg.ZOps) h = true /\
    Avg1DPend.consec_at_asks t c (Avg1DPend.pinit BookkeepingAvg.ZOps) h = false /\
    Avg1DPend.pmem k (Avg1DPend.pend (Avg1DPend.preach t c h)) = true /\
    Avg1DPend.toldb (Avg1DPend.base (Avg1DPend.preach t c h)) k = true.
Proof. exact BookkeepingAvg1D.a1d_commit_hands_out_told_pf. Qed.

(* ---------------------------------------------------------------------- *)
(* DataSaver over an ARBITRARY wrapped learner [L] and picker: data,
   pending_points, npoints and both losses ARE the child's (forwarded by
   __getattr__), so every C10 clause about them transfers from the child along
   the same history with the picked values; the wrapper's own record,
   extra_data, holds the LAST full result per told point -- which is finding
   C10:F20 when the child keeps the first value. *)
Section C10_ds.
  Variable L : GenericLearner.Learner.
  Variable R : Type.
  Variable pick : R -> GenericLearner.value L.
  Notation dst := (DataSaver.dst L R).
  Notation op := (DataSaver.op L R).

  Theorem C10_ds_observables_are_childs : forall (h : list op) (k : GenericLearner.state L),
    let s := DataSaver.run pick (DataSaver.init L R k) h in
    let kc := GenericLearner.lrun k (flat_map (DataSaver.pick_ops pick) h) in
    DataSaver.getattr (GenericLearner.data L) s = GenericLearner.data L kc /\
    DataSaver.getattr (GenericLearner.pending L) s = GenericLearner.pending L kc /\
    DataSaver.getattr (GenericLearner.npoints L) s = GenericLearner.npoints L kc /\
    (forall real, DataSaver.loss s real = GenericLearner.loss L kc real).
  Proof. exact (@BookkeepingDataSaver.ds_observables_are_childs L R pick). Qed.

  Theorem C10_ds_told_not_pending : forall (s : dst) x r,
    ~ In x (GenericLearner.pending L (GenericLearner.tell L (DataSaver.child s) x (pick r))) ->
    ~ In x (DataSaver.getattr (GenericLearner.pending L) (DataSaver.tell pick s x r)).
  Proof. exact (@BookkeepingDataSaver.ds_told_not_pending L R pick). Qed.

  Theorem C10_ds_asked_is_pending : forall (s : dst) n p,
    (In p (fst (fst (GenericLearner.ask L (DataSaver.child s) n true))) ->
     In p (GenericLearner.pending L (snd (GenericLearner.ask L (DataSaver.child s) n true)))) ->
    In p (fst (fst (DataSaver.ask s n true))) ->
    In p (DataSaver.getattr (GenericLearner.pending L) (snd (DataSaver.ask s n true))).
  Proof. exact (@BookkeepingDataSaver.ds_asked_is_pending L R). Qed.

  (* extra_data: exactly the told points (up to ==), each with the LAST full result *)
  Theorem C10_ds_extra_exact : GenericLearner.PointLaws L -> forall (h : list op) k x,
    DataSaver.alookup L x (DataSaver.extra (DataSaver.run pick (DataSaver.init L R k) h)) = DataSaverProofs.last_told x h /\
    ((exists r, DataSaver.alookup L x (DataSaver.extra (DataSaver.run pick (DataSaver.init L R k) h)) = Some r) <->
     (exists x' r, In (x', r) (DataSaver.tolds h) /\ GenericLearner.peqb L x' x = true)).
  Proof. exact (@BookkeepingDataSaver.ds_extra_exact L R pick). Qed.

  (* re-telling the same full result changes nothing when the child ignores the re-tell *)
  Theorem C10_ds_retell_noop : forall (s : dst) x r,
    GenericLearner.tell L (DataSaver.child s) x (pick r) = DataSaver.child s ->
    DataSaver.alookup L x (DataSaver.extra s) = Some r ->
    DataSaver.tell pick s x r = s.
  Proof. exact (@BookkeepingDataSaver.ds_retell_noop L R pick). Qed.

  (* ... but ANOTHER full result always replaces extra_data[x] (F20 when the child keeps the first value) *)
  Theorem C10_ds_retell_overwrites_extra : GenericLearner.PointLaws L -> forall (s : dst) x r',
    DataSaver.alookup L x (DataSaver.extra (DataSaver.tell pick s x r')) = Some r'.
  Proof. exact (@BookkeepingDataSaver.ds_retell_overwrites_extra L R pick). Qed.

  Theorem C10_ds_discard : forall (s : dst),
    GenericLearner.pending L (GenericLearner.remove_unfinished L (DataSaver.child s)) = [] ->
    GenericLearner.data L (GenericLearner.remove_unfinished L (DataSaver.child s)) = GenericLearner.data L (DataSaver.child s) ->
    GenericLearner.loss L (GenericLearner.remove_unfinished L (DataSaver.child s)) false =
      GenericLearner.loss L (GenericLearner.remove_unfinished L (DataSaver.child s)) true ->
    DataSaver.getattr (GenericLearner.pending L) (DataSaver.remove_unfinished s) = [] /\
    DataSaver.getattr (GenericLearner.data L) (DataSaver.remove_unfinished s) = DataSaver.getattr (GenericLearner.data L) s /\
    DataSaver.extra (DataSaver.remove_unfinished s) = DataSaver.extra s /\
    DataSaver.loss (DataSaver.remove_unfinished s) false = DataSaver.loss (DataSaver.remove_unfinished s) true.
  Proof. exact (@BookkeepingDataSaver.ds_discard L R). Qed.
End C10_ds.

(* finding C10:F20 on the model: a child that keeps the first value (like
   Learner1D, LearnerND, the averaging learners); tell(3, (7, 1)); tell(3, (9, 2)):
   data[3] = 7 but extra_data[3] = (9, 2) *)
Theorem C10_ds_extra_overwritten_refuted :
  let KL := BookkeepingDataSaver.KeepFirst.learner in
  let pick : nat * nat -> GenericLearner.value KL := fun r : nat * nat => fst r in
  let s := DataSaver.run pick (DataSaver.init KL (nat * nat) BookkeepingDataSaver.KeepFirst.init)
               [@DataSaver.Tell KL (nat * nat) 3 (7, 1); @DataSaver.Tell KL (nat * nat) 3 (9, 2)] in
  DataSaver.getattr (GenericLearner.data KL) s = [(3, 7)] /\ DataSaver.alookup KL 3 (DataSaver.extra s) = Some (9, 2).
Proof. exact BookkeepingDataSaver.ds_extra_overwritten_pf. Qed.

(* ---------------------------------------------------------------------- *)
(* BalancingLearner over arbitrary children: each clause of the wrapper from
   the same clause of the children (routing and aggregation are C15's). *)
Section C10_bal.
  Variable L : GenericLearner.Learner.
  Notation bst := (Balancing.bst L).

  (* data is the labelled union; a tell for child i changes exactly child i, by its own tell *)
  Theorem C10_bal_data_after_tell : forall (s : bst) i x y k j q v,
    nth_error (Balancing.kids s) i = Some k ->
    (In (j, (q, v)) (Balancing.bdata (Balancing.tell s i x y)) <->
     (j = i /\ In (q, v) (GenericLearner.data L (GenericLearner.tell L k x y))) \/
     (j <> i /\ In (j, (q, v)) (Balancing.bdata s))).
  Proof. exact (@BookkeepingBalancing.bal_data_after_tell L). Qed.

  Theorem C10_bal_told_not_pending : forall (s : bst) i x y k,
    nth_error (Balancing.kids s) i = Some k ->
    ~ In x (GenericLearner.pending L (GenericLearner.tell L k x y)) ->
    ~ In (i, x) (Balancing.bpending (Balancing.tell s i x y)).
  Proof. exact (@BookkeepingBalancing.bal_told_not_pending L). Qed.

  Theorem C10_bal_npoints : forall s : bst,
    Balancing.bnpoints s = list_sum (map (GenericLearner.npoints L) (Balancing.kids s)).
  Proof. exact (@BookkeepingBalancing.bal_npoints L). Qed.

  (* re-tell: if child i ignores it, children, data, pending points, npoints are unchanged *)
  Theorem C10_bal_retell_noop : forall (s : bst) i x y k,
    nth_error (Balancing.kids s) i = Some k -> GenericLearner.tell L k x y = k ->
    Balancing.kids (Balancing.tell s i x y) = Balancing.kids s /\
    Balancing.bdata (Balancing.tell s i x y) = Balancing.bdata s /\
    Balancing.bpending (Balancing.tell s i x y) = Balancing.bpending s /\
    Balancing.bnpoints (Balancing.tell s i x y) = Balancing.bnpoints s /\
    Balancing.failed (Balancing.tell s i x y) = Balancing.failed s.
  Proof. exact (@BookkeepingBalancing.bal_retell_noop L). Qed.

  Theorem C10_bal_discard : forall rep (s : bst),
    (forall k, In k (Balancing.kids s) -> GenericLearner.pending L (GenericLearner.remove_unfinished L k) = []) ->
    Balancing.bpending (Balancing.bremove_unfinished rep s) = [] /\
    Balancing.kids (Balancing.bremove_unfinished rep s) = map (GenericLearner.remove_unfinished L) (Balancing.kids s).
  Proof. exact (@BookkeepingBalancing.bal_discard L). Qed.

  Hypothesis child_ask_pure : forall k : GenericLearner.state L, snd (GenericLearner.ask L k 1 false) = k.

  (* repaired model (the caches are dropped: finding C10:F2 / C15:F2 fixed) *)
  Theorem C10_bal_discard_losses : forall s : bst,
    (forall k, In k (Balancing.kids s) ->
       GenericLearner.loss L (GenericLearner.remove_unfinished L k) false =
       GenericLearner.loss L (GenericLearner.remove_unfinished L k) true) ->
    snd (Balancing.bloss (Balancing.bremove_unfinished true s) false) =
    snd (Balancing.bloss (Balancing.bremove_unfinished true s) true).
  Proof. exact (fun s => BookkeepingBalancing.bal_discard_losses L s child_ask_pure). Qed.

  Hypothesis child_commit : forall k : GenericLearner.state L,
    fst (GenericLearner.ask L k 1 true) = fst (GenericLearner.ask L k 1 false) /\
    snd (GenericLearner.ask L k 1 true) = match fst (fst (GenericLearner.ask L k 1 false)) with
                                          | p :: _ => GenericLearner.tell_pending L k p
                                          | [] => k
                                          end.
  Hypothesis child_tell_pending_idem : forall (k : GenericLearner.state L) p,
    GenericLearner.tell_pending L (GenericLearner.tell_pending L k p) p = GenericLearner.tell_pending L k p.
  Hypothesis child_marked_is_pending : forall (k : GenericLearner.state L) p,
    In p (GenericLearner.pending L (GenericLearner.tell_pending L k p)).
  Hypothesis child_pending_mono : forall (k : GenericLearner.state L) p q,
    In q (GenericLearner.pending L k) -> In q (GenericLearner.pending L (GenericLearner.tell_pending L k p)).

  (* every (i, p) returned by a committing ask is pending afterwards *)
  Theorem C10_bal_asked_is_pending : forall rep (s : bst) n i p v,
    Balancing.failed (fst (Balancing.bask rep s n true)) = false ->
    In ((i, p), v) (snd (Balancing.bask rep s n true)) ->
    In (i, p) (Balancing.bpending (fst (Balancing.bask rep s n true))).
  Proof.
    exact (BookkeepingBalancing.bal_asked_is_pending L child_ask_pure child_commit child_tell_pending_idem
             child_marked_is_pending child_pending_mono).
  Qed.
End C10_bal.

(* ---------------------------------------------------------------------- *)
(* IntegratorLearner (Model/Integrator.v; data = its keys -- the values and
   every numeric verdict are the environment's, so "each with the value it was
   told" is not claimed: _partial).  Both variants of the code, every history,
   every oracle answer.  remove_unfinished is `pass` in the code and not an
   operation of the model (C10's "no-op for the integrator"). *)
Section C10_int.
  Variable X : Type.
  Variable eqb : X -> X -> bool.
  Variable points : X -> X -> nat -> list X.
  Variable repaired : bool.
  Variable dflt : X.
  Hypothesis eqb_spec : forall x y, eqb x y = true <-> x = y.
  Notation st := (Integrator.st X).
  Notation op := (Integrator.op X).
  Notation step := (Integrator.step eqb points repaired dflt).
  Notation run := (Integrator.run eqb points repaired dflt).
  Notation init := (Integrator.init eqb points repaired dflt).

  (* ALL histories: the keys of data are duplicate-free (npoints = len(data) counts
     distinct points), data and pending_points are disjoint *)
  Theorem C10_int_inv : forall lo hi maxiv (h : list op),
    NoDup (Integrator.data (run (init lo hi maxiv) h)) /\
    (forall x, In x (Integrator.pending (run (init lo hi maxiv) h)) -> ~ In x (Integrator.data (run (init lo hi maxiv) h))) /\
    Integrator.npoints (run (init lo hi maxiv) h) = length (Integrator.data (run (init lo hi maxiv) h)).
  Proof.
    intros lo hi maxiv h. destruct (BookkeepingIntegrator.BInv_holds X eqb points repaired dflt eqb_spec lo hi maxiv h) as [H1 H2].
    split; [exact H1|]. split; [exact H2|reflexivity].
  Qed.

  (* data holds only told abscissae, and every accepted tell is and stays in data *)
  Theorem C10_int_data_exact_partial : forall lo hi maxiv,
    (forall (h : list op) y, In y (Integrator.data (run (init lo hi maxiv) h)) -> In y (BookkeepingIntegrator.tolds X h)) /\
    (forall (h1 : list op) y vs (h2 : list op),
       Integrator.halted (run (init lo hi maxiv) h1) = false ->
       Integrator.xmap_mem eqb y (Integrator.xmap (run (init lo hi maxiv) h1)) = true ->
       In y (Integrator.data (run (init lo hi maxiv) (h1 ++ Integrator.Tell y vs :: h2)))).
  Proof.
    intros lo hi maxiv. split.
    - intros h y. apply (BookkeepingIntegrator.data_only_told X eqb points repaired dflt eqb_spec).
    - intros h1 y vs h2. apply (BookkeepingIntegrator.int_told_in_data X eqb points repaired dflt eqb_spec).
  Qed.

  (* one tell, every non-halted state: either rejected (ValueError, nothing
     changes) or the point is in data, not pending, and nothing else moved *)
  Theorem C10_int_tell_bookkeeping : forall (s : st) x vs,
    Integrator.halted s = false ->
    (Integrator.xmap_mem eqb x (Integrator.xmap s) = false /\ step s (Integrator.Tell x vs) = (s, ([], Integrator.EValue))) \/
    (Integrator.xmap_mem eqb x (Integrator.xmap s) = true /\ snd (snd (step s (Integrator.Tell x vs))) <> Integrator.EValue /\
     In x (Integrator.data (fst (step s (Integrator.Tell x vs)))) /\
     ~ In x (Integrator.pending (fst (step s (Integrator.Tell x vs)))) /\
     (forall y, In y (Integrator.data (fst (step s (Integrator.Tell x vs)))) <-> y = x \/ In y (Integrator.data s)) /\
     (forall y, In y (Integrator.pending (fst (step s (Integrator.Tell x vs)))) <-> In y (Integrator.pending s) /\ y <> x) /\
     Integrator.stack (fst (step s (Integrator.Tell x vs))) = Integrator.stack s).
  Proof. exact (BookkeepingIntegrator.int_tell_bookkeeping X eqb points repaired dflt eqb_spec). Qed.

  (* ALL histories: a point handed out by ask is pending as long as it has not been told *)
  Theorem C10_int_asked_is_pending : forall lo hi maxiv (h : list op) x,
    In x (Integrator.handed (Integrator.outs eqb points repaired dflt (init lo hi maxiv) h)) ->
    ~ In x (BookkeepingIntegrator.tolds X h) ->
    In x (Integrator.pending (run (init lo hi maxiv) h)).
  Proof. exact (BookkeepingIntegrator.int_asked_is_pending X eqb points repaired dflt eqb_spec). Qed.

  (* re-tell of a known point: stack, pending_points, keys of data, x_mapping
     unchanged (the interval tree is not claimed: the integrator re-processes) *)
  Theorem C10_int_retell_points_partial : forall (s : st) x,
    BookkeepingIntegrator.BInv s -> In x (Integrator.data s) ->
    IntegratorProofs.pts X (fst (Integrator.tell eqb points repaired dflt s x)) = IntegratorProofs.pts X s.
  Proof. exact (BookkeepingIntegrator.int_retell_points_partial X eqb points repaired dflt eqb_spec). Qed.
End C10_int.

(* ---------------------------------------------------------------------- *)
(* LearnerND (Model/LND.v; data = the told points in order of first tell, the
   values and every geometric / numeric decision are oracle answers, so "each
   with the value it was told" is not claimed: _partial).  All variants of the
   code.  LearnerND.loss ignores its [real] flag: there is one loss, and the
   "two losses are equal after a discard" holds trivially. *)
Section C10_lnd.
  Variable L : Type.
  Variables (lmul ldiv : L -> L -> L) (labs : L -> L) (linf : L).
  Variable rnd : L -> Z.
  Variable d : nat.
  Variable corners : list nat.
  Variables repaired fix12 : bool.
  Notation lnd := (LND.lnd L).
  Notation op := (LND.op L).
  Notation step := (LND.step lmul ldiv labs linf rnd d corners repaired fix12).
  Notation run := (LND.run lmul ldiv labs linf rnd d corners repaired fix12).
  Notation lt0 := (fun _ _ : L => true).

  (* ALL histories (also those with exceptions): data = the told points, each
     once, in order of first tell; npoints = len(data) = number of distinct told points *)
  Theorem C10_lnd_data_exact_partial : forall h : list op,
    LND.l_data (run (LND.init_lnd L) h) = BookkeepingLND.told_list L h /\
    NoDup (BookkeepingLND.told_list L h) /\
    (forall p, In p (BookkeepingLND.told_list L h) <-> exists E, In (LND.Tell p E) h).
  Proof. exact (BookkeepingLND.lnd_npoints L lmul ldiv labs linf rnd lt0 d corners repaired fix12). Qed.

  (* post-condition of tell (every state): the told point is not pending, unless
     it was known AND pending before (tell_pending of a known point: no guard in the code) *)
  Theorem C10_lnd_told_not_pending : forall (s : lnd) p E,
    (In p (LND.l_data s) -> ~ In p (LND.l_pend s)) -> ~ In p (LND.l_pend (fst (step s (LND.Tell p E)))).
  Proof. exact (BookkeepingLND.lnd_told_not_pending L lmul ldiv labs linf rnd lt0 d corners repaired fix12). Qed.

  (* data and pending are disjoint along every history in which tell_pending is
     only used on points without a value, every ask answers, and no ask returns a
     point that already has a value.  The last hypothesis excludes exactly
     finding C10:F24 (C10_lnd_ask_hands_out_told_refuted). *)
  Theorem C10_lnd_data_pending_disjoint : forall (h : list op) (s : lnd),
    BookkeepingLND.Disj s -> BookkeepingLND.polite L lmul ldiv labs linf rnd d corners repaired fix12 s h ->
    BookkeepingLND.Disj (run s h).
  Proof. exact (BookkeepingLND.lnd_data_pending_disjoint L lmul ldiv labs linf rnd lt0 d corners repaired fix12). Qed.

  (* one committing ask that answers: data untouched, the pending set grows by
     exactly the returned points that are inside the bounds *)
  Theorem C10_lnd_ask_bookkeeping : forall (s : lnd) n E s' pts,
    step s (LND.Ask n E) = (s', LND.ORet pts) ->
    LND.l_data s' = LND.l_data s /\
    (forall x, In x (LND.l_pend s') <-> In x (LND.l_pend s) \/ (In x (map fst pts) /\ LND.e_inb E x = true)).
  Proof. exact (BookkeepingLND.lnd_ask_dp L lmul ldiv labs linf rnd lt0 d corners repaired fix12). Qed.

  (* ... and such a point stays pending along every continuation whose asks
     answer and that neither tells it nor discards *)
  Theorem C10_lnd_asked_is_pending : forall (s : lnd) n E s' pts (h : list op) x,
    step s (LND.Ask n E) = (s', LND.ORet pts) -> In x (map fst pts) -> LND.e_inb E x = true ->
    forallb (BookkeepingLND.keeps_p x) h = true ->
    BookkeepingLND.answering L lmul ldiv labs linf rnd d corners repaired fix12 s' h ->
    In x (LND.l_pend (run s' h)).
  Proof. exact (BookkeepingLND.lnd_asked_is_pending L lmul ldiv labs linf rnd lt0 d corners repaired fix12). Qed.

  (* telling a known point again changes nothing at all, whatever the value *)
  Theorem C10_lnd_retell_noop : forall (s : lnd) p E,
    In p (LND.l_data s) -> LND.tell lmul ldiv rnd d fix12 E s p = s.
  Proof. exact (BookkeepingLND.lnd_retell_noop L lmul ldiv rnd d fix12). Qed.

  Theorem C10_lnd_discard : forall s : lnd,
    LND.l_pend (fst (step s LND.RemoveUnfinished)) = [] /\
    LND.l_data (fst (step s LND.RemoveUnfinished)) = LND.l_data s /\
    LND.l_subs (fst (step s LND.RemoveUnfinished)) = [].
  Proof. exact (BookkeepingLND.lnd_discard L lmul ldiv labs linf rnd d corners repaired fix12). Qed.
End C10_lnd.

(* finding C10:F24 on the model: the three corners have values but no
   triangulation exists yet; ask(1) draws the point 1, which has a value, and
   marks it pending *)
Theorem C10_lnd_ask_hands_out_told_refuted :
  let h := [LND.Tell 0 (BookkeepingLND.ex_env [] []); LND.Tell 1 (BookkeepingLND.ex_env [] []);
            LND.Tell 2 (BookkeepingLND.ex_env [] [])] in
  let s := BookkeepingLND.ex_run (LND.init_lnd Z) h in
  snd (BookkeepingLND.ex_step s (LND.Ask 1 (BookkeepingLND.ex_env [None] [1]))) = LND.ORet [(1, 1000%Z)] /\
  LND.l_data (fst (BookkeepingLND.ex_step s (LND.Ask 1 (BookkeepingLND.ex_env [None] [1])))) = [0; 1; 2] /\
  LND.l_pend (fst (BookkeepingLND.ex_step s (LND.Ask 1 (BookkeepingLND.ex_env [None] [1])))) = [1].
Proof. exact BookkeepingLND.lnd_ask_hands_out_told_pf. Qed.

(* non-vacuity (Seq): legal history with an unsolicited tell, a re-tell with a
   different value (overwrites), a discard *)
Example C10_example_seq :
  let h := [Seq.Ask 3 true; Seq.Tell 1 10; Seq.Tell 4 40; Seq.Tell 1 11; Seq.RemoveUnfinished] in
  Seq.legal (Seq.init nat 5) h = true /\
  Seq.data (SeqProofs.reach nat 5 h) = [(1, 11); (4, 40)] /\
  Seq.pend (SeqProofs.reach nat 5 h) = [] /\ SeqBK.told_set nat h = [1; 4].
Proof. vm_compute. repeat split. Qed.

(* non-vacuity (L1D over Z, loss function constantly 1): an incremental
   history with a committing ask, a tell of a pending point, a re-tell with a
   different value (ignored) and an unsolicited point *)
Example C10_example_l1d :
  let P := L1D.mkparams (0%Z) (8%Z) (0%Z) 0 (2%Z) in
  let Lc := fun (_ : list (option Z)) (_ : list (option (L1D.Y Z))) => 1%Z in
  let run := @L1D.run Z Z.add Z.sub Z.mul Z.div Z.ltb Z.eqb 0%Z 1%Z 1000000%Z (-1000000)%Z
                      (fun _ => false) (fun z => Z.eqb (Z.abs z) 1000000) (fun z => z) Z.of_nat Lc P in
  let init := @L1D.init Z Z.sub 0%Z 1000000%Z (-1000000)%Z P in
  let h := [L1D.Ask 2 true; L1D.Tell 0%Z (L1D.YS 5%Z); L1D.Tell 0%Z (L1D.YS 6%Z);
            L1D.Tell 3%Z (L1D.YS 9%Z); L1D.Ask 1 false] in
  @L1DBK.incremental Z Z.add Z.sub Z.mul Z.div Z.ltb Z.eqb 0%Z 1%Z 1000000%Z (-1000000)%Z
        (fun _ => false) (fun z => Z.eqb (Z.abs z) 1000000) (fun z => z) Z.of_nat Lc P init h = true /\
  L1D.data (run init h) = [(0%Z, L1D.YS 5%Z); (3%Z, L1D.YS 9%Z)] /\
  L1D.pend (run init h) = [8%Z] /\
  L1DBK.first_told Z.eqb h 0%Z = Some (L1D.YS 5%Z).
Proof. vm_compute. repeat split. Qed.

(* non-vacuity (Avg over the integers): a polite history with a committing
   ask, an unsolicited out-of-order tell (the next ask takes the fallback
   branch), a re-tell with another value (ignored), tell_pending, a discard and
   a non-committing ask *)
Example C10_example_avg :
  let N := BookkeepingAvg.ZOps in
  let c := Avg.mkcfg N 1%Z 1%Z 2 true in
  let h := [Avg.Ask 2 true []; Avg.Tell N 1 7%Z; Avg.Tell N 4 9%Z; Avg.Tell N 1 8%Z;
            Avg.TellPending 6; Avg.Ask 2 true [2; 3]; Avg.Ask 3 false []] in
  BookkeepingAvg.polite c (Avg.init N) h = true /\
  Avg.data (Avg.reach c h) = [(1, 7%Z); (4, 9%Z)] /\
  Avg.pend (Avg.reach c h) = [0; 2; 3; 6] /\
  BookkeepingAvg.told_set h = [1; 4] /\
  Avg.first_told h 1 = Some 7%Z /\
  Avg.pend (Avg.remove_unfinished (Avg.reach c h)) = [].
Proof. vm_compute. repeat split. Qed.

(* the hypothesis of C10_avg_told_not_pending / the politeness proviso is
   needed: marking a KNOWN seed pending leaves it in both sets (remark, not a
   finding: only Learner1D.tell_pending guards against it) *)
Example C10_avg_known_marked_pending_remark :
  let N := BookkeepingAvg.ZOps in
  let c := Avg.mkcfg N 1%Z 1%Z 2 true in
  let h := [Avg.Tell N 0 5%Z; Avg.TellPending 0; Avg.Tell N 0 5%Z] in
  Avg.pend (Avg.reach c h) = [0] /\ Avg.keys (Avg.reach c h) = [0].
Proof. vm_compute. repeat split. Qed.

(* non-vacuity (Avg1D over the integers): legal, polite, consecutive seeds at the
   committing asks; a committing ask on the empty learner, tells of the returned
   samples, tell_pending of an unsolicited (seed, x), a batch at a new abscissa,
   a re-tell with another value (ignored), a committing ask to the undersampled
   abscissa, a non-committing ask *)
Example C10_example_avg1d :
  let Z0 := BookkeepingAvg.ZOps in
  let t : nat -> AvgNum.num Z0 := fun _ => 1%Z in
  let c := Avg1D.mkcfg Z0 (-10)%Z 10%Z 2 1%Z true in
  let h := [@Avg1DPend.PAsk Z0 2 true [(0, 3%Z)]; @Avg1DPend.PTell Z0 0 3%Z 7%Z; @Avg1DPend.PTell Z0 1 3%Z 9%Z;
            @Avg1DPend.PTellPending Z0 (5, 4%Z); @Avg1DPend.PTellManyAt Z0 4%Z [(0, 1%Z); (1, 2%Z)] 2%Z;
            @Avg1DPend.PTell Z0 0 3%Z 100%Z; @Avg1DPend.PAsk Z0 1 true [(2, 4%Z)];
            @Avg1DPend.PAsk Z0 2 false [(2, 4%Z)]] in
  Avg1D.legal t c (Avg1D.init Z0) (Avg1DPend.base_ops h) = true /\
  Avg1DPend.polite t c (Avg1DPend.pinit Z0) h = true /\
  Avg1DPend.consec_at_asks t c (Avg1DPend.pinit Z0) h = true /\
  Avg1DPend.pend (Avg1DPend.preach t c h) = [(5, 4%Z); (2, 4%Z)] /\
  @Avg1DPend.samples_at Z0 3%Z (Avg1DPend.base (Avg1DPend.preach t c h)) = [(0, 7%Z); (1, 9%Z)] /\
  Avg1D.nsamples (Avg1DPend.base (Avg1DPend.preach t c h)) = 4.
Proof. vm_compute. repeat split. Qed.

(* non-vacuity (Balancing over two toy children, repaired model): asks under two
   strategies, a tell, a discard *)
Example C10_example_bal :
  let TL := GenericLearner.Toy.learner in
  let s := Balancing.run true (Balancing.init TL [GenericLearner.Toy.init; GenericLearner.Toy.init] Balancing.SImp)
             [Balancing.Ask 3 true; @Balancing.Tell TL 0 0 7; Balancing.SetStrategy Balancing.SNpoints; Balancing.Ask 2 true] in
  Balancing.failed s = false /\ Balancing.bdata s = [(0, (0, 7))] /\ Balancing.bnpoints s = 1 /\
  Balancing.bpending (Balancing.bremove_unfinished true s) = [] /\
  snd (Balancing.bloss (Balancing.bremove_unfinished true s) false) = snd (Balancing.bloss (Balancing.bremove_unfinished true s) true).
Proof. vm_compute. repeat split. Qed.

(* non-vacuity (Integrator over naturals): ask(3), then the value of a point
   that is still queued arrives (accepted: it is an abscissa of the first
   interval), then a foreign abscissa (rejected) *)
Example C10_example_int :
  let stp := Integrator.step Nat.eqb BookkeepingIntegrator.ex_pts true 0 in
  let s0 := Integrator.init Nat.eqb BookkeepingIntegrator.ex_pts true 0 0 4096 1000 in
  let s1 := fst (stp s0 (Integrator.Ask 3 [])) in
  let s2 := fst (stp s1 (Integrator.Tell 2048 [])) in
  Integrator.data s2 = [2048] /\ existsb (Nat.eqb 2048) (Integrator.pending s2) = false /\
  existsb (Nat.eqb 256) (Integrator.pending s2) = true /\
  stp s2 (Integrator.Tell 7 []) = (s2, ([], Integrator.EValue)).
Proof. vm_compute. repeat split. Qed.

(* non-vacuity (LearnerND model, triangular domain): ask the three corners, tell
   two of them, mark an unsolicited point pending, re-tell, discard *)
Example C10_example_lnd :
  let E0 := BookkeepingLND.ex_env [] [] in
  let h := [LND.Ask 3 E0; LND.Tell 0 E0; LND.Tell 2 E0; LND.TellPending 7 E0; LND.Tell 0 E0] in
  let s := BookkeepingLND.ex_run (LND.init_lnd Z) h in
  LND.l_data s = [0; 2] /\ LND.l_pend s = [1; 7] /\
  LND.l_pend (fst (BookkeepingLND.ex_step s LND.RemoveUnfinished)) = [].
Proof. vm_compute. repeat split. Qed.

Print Assumptions C10_seq_data_exact.
Print Assumptions C10_seq_data_determined.
Print Assumptions C10_seq_told_not_pending.
Print Assumptions C10_seq_data_pending_disjoint.
Print Assumptions C10_seq_asked_is_pending.
Print Assumptions C10_seq_npoints.
Print Assumptions C10_seq_retell_noop.
Print Assumptions C10_seq_discard.
Print Assumptions C10_order_laws_Z.
Print Assumptions C10_l1d_inv.
Print Assumptions C10_l1d_data_exact.
Print Assumptions C10_l1d_batch_overwrites.
Print Assumptions C10_l1d_told_not_pending.
Print Assumptions C10_l1d_data_pending_disjoint.
Print Assumptions C10_l1d_asked_is_pending.
Print Assumptions C10_l1d_npoints.
Print Assumptions C10_l1d_retell_noop.
Print Assumptions C10_l1d_discard.
Print Assumptions C10_avg_data_exact.
Print Assumptions C10_avg_told_not_pending.
Print Assumptions C10_avg_data_pending_disjoint.
Print Assumptions C10_avg_asked_is_pending.
Print Assumptions C10_avg_npoints.
Print Assumptions C10_avg_retell_noop.
Print Assumptions C10_avg_discard.
Print Assumptions C10_eqlaws_Z.
Print Assumptions C10_avg1d_data_exact.
Print Assumptions C10_avg1d_told_exact.
Print Assumptions C10_avg1d_told_not_pending.
Print Assumptions C10_avg1d_data_pending_disjoint.
Print Assumptions C10_avg1d_asked_is_pending.
Print Assumptions C10_avg1d_nsamples.
Print Assumptions C10_avg1d_retell_noop.
Print Assumptions C10_avg1d_discard_partial.
Print Assumptions C10_avg1d_commit_hands_out_told_refuted.
Print Assumptions C10_ds_observables_are_childs.
Print Assumptions C10_ds_told_not_pending.
Print Assumptions C10_ds_asked_is_pending.
Print Assumptions C10_ds_extra_exact.
Print Assumptions C10_ds_retell_noop.
Print Assumptions C10_ds_retell_overwrites_extra.
Print Assumptions C10_ds_discard.
Print Assumptions C10_ds_extra_overwritten_refuted.
Print Assumptions C10_bal_data_after_tell.
Print Assumptions C10_bal_told_not_pending.
Print Assumptions C10_bal_npoints.
Print Assumptions C10_bal_retell_noop.
Print Assumptions C10_bal_discard.
Print Assumptions C10_bal_discard_losses.
Print Assumptions C10_bal_asked_is_pending.
Print Assumptions C10_int_inv.
Print Assumptions C10_int_data_exact_partial.
Print Assumptions C10_int_tell_bookkeeping.
Print Assumptions C10_int_asked_is_pending.
Print Assumptions C10_int_retell_points_partial.
Print Assumptions C10_lnd_data_exact_partial.
Print Assumptions C10_lnd_told_not_pending.
Print Assumptions C10_lnd_data_pending_disjoint.
Print Assumptions C10_lnd_ask_bookkeeping.
Print Assumptions C10_lnd_asked_is_pending.
Print Assumptions C10_lnd_retell_noop.
Print Assumptions C10_lnd_discard.
Print Assumptions C10_lnd_ask_hands_out_told_refuted.
