(* Property C10 -- Telling is faithful bookkeeping: data, pending set and
   re-tells.  Statements only (proofs in Proofs/BookkeepingProofs.v), for the
   two hand-written learner models Model/Seq.v (SequenceLearner: a re-tell
   OVERWRITES) and Model/L1D.v (Learner1D: [tell] keeps the FIRST value; the
   rebuilding path of [tell_many] overwrites -- stated precisely below).
   The L1D theorems hold for every number type whose comparison satisfies
   [OrderLaws] (inhabited by Z: [C10_order_laws_Z]) and for every loss
   function [L].  Every other learner type and both wrappers are decided by
   the bookkeeping oracle of harness/avh/props/c10.py on the real classes. *)
From Coq Require Import ZArith.
From AV Require Import Base.Prelude Base.NatSet.
From AV Require Model.Seq Model.L1D Proofs.SeqProofs Proofs.BookkeepingProofs.
From AV Require Model.AvgNum Model.Avg Proofs.AvgProofs Proofs.BookkeepingAvg.
From AV Require Model.Avg1D Model.Avg1DPend Proofs.BookkeepingAvg1D.
Import BookkeepingProofs.

Section C10_seq.
  Variable V : Type.
  Notation st := (Seq.st V).
  Notation op := (Seq.op V).
  Notation reach := (SeqProofs.reach V).
  Notation assoc := (SeqProofs.assoc V).

  (* along every legal history, [data] is the strictly increasing list of the
     told indices, index k carrying the value told LAST for k *)
  Theorem C10_seq_data_exact : forall n (h : list op), Seq.legal (Seq.init V n) h = true ->
    sorted (SeqProofs.keys (reach n h)) /\
    (forall k, assoc k (Seq.data (reach n h)) = SeqProofs.last_told h k) /\
    (forall k, In k (SeqProofs.keys (reach n h)) <-> SeqProofs.last_told h k <> None).
  Proof. exact (@SeqBK.seq_data_exact V). Qed.

  (* ... and those two facts determine the list *)
  Theorem C10_seq_data_determined : forall d1 d2 : list (nat * V),
    sorted (map fst d1) -> sorted (map fst d2) ->
    (forall k, assoc k d1 = assoc k d2) -> d1 = d2.
  Proof. exact (@SeqBK.data_determined V). Qed.

  Theorem C10_seq_told_not_pending : forall (s : st) i v, ~ In i (Seq.pend (Seq.tell s i v)).
  Proof. exact (@SeqBK.seq_told_not_pending V). Qed.

  Theorem C10_seq_data_pending_disjoint : forall n (h : list op), Seq.legal (Seq.init V n) h = true ->
    forall i, In i (Seq.pend (reach n h)) -> ~ In i (SeqProofs.keys (reach n h)).
  Proof. exact (@SeqBK.seq_data_pending_disjoint V). Qed.

  (* an index returned by a committing ask is pending, and stays pending along
     every continuation that neither tells it nor discards *)
  Theorem C10_seq_asked_is_pending : forall (s : st) k (h : list op) i,
    In i (snd (Seq.ask s k true)) -> forallb (SeqBK.keeps V i) h = true ->
    In i (Seq.pend (Seq.run (fst (Seq.ask s k true)) h)).
  Proof. exact (@SeqBK.seq_asked_is_pending V). Qed.

  (* npoints = number of distinct told indices (all histories) *)
  Theorem C10_seq_npoints : forall n (h : list op),
    Seq.npoints (reach n h) = length (SeqBK.told_set V h) /\
    NoDup (SeqBK.told_set V h) /\
    (forall k, In k (SeqBK.told_set V h) <-> exists v, In (Seq.Tell k v) h).
  Proof. exact (@SeqBK.seq_npoints V). Qed.

  (* telling a known index the value it already has changes nothing at all *)
  Theorem C10_seq_retell_noop : forall (s : st) i v,
    SeqProofs.Inv s -> assoc i (Seq.data s) = Some v -> Seq.tell s i v = s.
  Proof. exact (@SeqBK.seq_retell_noop V). Qed.

  Theorem C10_seq_discard : forall s : st,
    Seq.pend (Seq.remove_unfinished s) = [] /\
    Seq.data (Seq.remove_unfinished s) = Seq.data s /\
    Seq.loss_num (Seq.remove_unfinished s) false = Seq.loss_num (Seq.remove_unfinished s) true.
  Proof. exact (@SeqBK.seq_discard V). Qed.
End C10_seq.

Theorem C10_order_laws_Z : L1DBK.OrderLaws Z.ltb Z.eqb.
Proof. exact L1DBK.OrderLaws_Z. Qed.

Section C10_l1d.
  Variable num : Type.
  Variables (add sub mul div : num -> num -> num).
  Variables (ltb eqb : num -> num -> bool).
  Variables (zero one inf neg_inf : num).
  Variable is_nan : num -> bool.
  Variable is_inf : num -> bool.
  Variable round12 : num -> num.
  Variable of_nat : nat -> num.
  Variable L : list (option num) -> list (option (L1D.Y num)) -> num.
  Variable P : L1D.params num.
  Hypothesis OL : L1DBK.OrderLaws ltb eqb.

  Notation st := (L1D.st num).
  Notation op := (L1D.op num).
  Notation tell := (@L1D.tell num sub mul div ltb eqb zero one inf neg_inf is_nan is_inf round12 L P).
  Notation tell_pending := (@L1D.tell_pending num sub mul div ltb eqb zero one inf L P).
  Notation tell_many_batch := (@L1D.tell_many_batch num sub mul div ltb eqb zero one inf is_nan L P).
  Notation ask := (@L1D.ask num add sub mul div ltb eqb zero one inf is_nan is_inf round12 of_nat L P).
  Notation run := (@L1D.run num add sub mul div ltb eqb zero one inf neg_inf is_nan is_inf round12 of_nat L P).
  Notation loss := (@L1D.loss num sub div ltb eqb inf is_nan is_inf round12 P).
  Notation dget := (@L1D.dget num eqb).
  Notation init := (@L1D.init num sub zero inf neg_inf P).
  Notation incremental := (@L1DBK.incremental num add sub mul div ltb eqb zero one inf neg_inf is_nan is_inf round12 of_nat L P).

  (* the bookkeeping invariant -- keys of data strictly increasing, pending
     strictly increasing, the two disjoint -- holds along ALL histories *)
  Theorem C10_l1d_inv : forall h : list op, L1DBK.BInv ltb (run init h).
  Proof. exact (fun h => L1DBK.binv_run add sub mul div zero one inf neg_inf is_nan is_inf round12 of_nat L P OL h
                           (L1DBK.binv_init sub ltb zero inf neg_inf P)). Qed.

  (* histories whose tell_many calls all take the incremental path: data maps
     each told point to the value of its FIRST tell; nothing else is in data *)
  Theorem C10_l1d_data_exact : forall (h : list op) x, incremental init h = true ->
    dget x (L1D.data (run init h)) = L1DBK.first_told eqb h x /\
    L1DBK.lsorted ltb (L1DBK.dkeys (run init h)) /\
    (In x (L1DBK.dkeys (run init h)) <-> L1DBK.first_told eqb h x <> None).
  Proof. exact (L1DBK.l1d_data_exact add sub mul div zero one inf neg_inf is_nan is_inf round12 of_nat L P OL). Qed.

  (* the rebuilding path of tell_many overwrites: afterwards x carries the value
     of its LAST occurrence in the batch, else what it had (a remark recorded
     by DESIGN section 7 C10, not claimed as a violation) *)
  Theorem C10_l1d_batch_overwrites : forall (s : st) xys x,
    dget x (L1D.data (tell_many_batch s xys)) = fold_left (L1DBK.last_xy eqb x) xys (dget x (L1D.data s)).
  Proof. exact (L1DBK.l1d_batch_overwrites sub mul div zero one inf is_nan L P OL). Qed.

  Theorem C10_l1d_told_not_pending : forall (s : st) x y,
    L1DBK.BInv ltb s -> ~ In x (L1D.pend (tell s x y)).
  Proof. exact (fun s => L1DBK.l1d_told_not_pending add sub mul div zero one inf neg_inf is_nan is_inf round12 L P OL (s:=s)). Qed.

  Theorem C10_l1d_data_pending_disjoint : forall (h : list op) x,
    In x (L1D.pend (run init h)) -> dget x (L1D.data (run init h)) = None.
  Proof. exact (L1DBK.l1d_data_pending_disjoint add sub mul div zero one inf neg_inf is_nan is_inf round12 of_nat L P OL). Qed.

  (* a not yet evaluated point returned by a committing ask is pending and stays
     so along every continuation that neither tells it nor discards *)
  Theorem C10_l1d_asked_is_pending : forall (s : st) n (h : list op) x,
    In x (fst (snd (ask s n true))) -> dget x (L1D.data s) = None ->
    forallb (L1DBK.keeps eqb x) h = true ->
    In x (L1D.pend (run (fst (ask s n true)) h)).
  Proof. exact (L1DBK.l1d_asked_is_pending add sub mul div zero one inf neg_inf is_nan is_inf round12 of_nat L P OL). Qed.

  (* npoints = len(data) = number of distinct told points, all histories *)
  Theorem C10_l1d_npoints : forall h : list op,
    length (L1D.data (run init h)) = length (L1DBK.told_set ltb eqb h) /\
    NoDup (L1DBK.told_set ltb eqb h) /\
    (forall x, In x (L1DBK.told_set ltb eqb h) <-> exists o, In o h /\ L1DBK.tells x o).
  Proof. exact (L1DBK.l1d_npoints add sub mul div zero one inf neg_inf is_nan is_inf round12 of_nat L P OL). Qed.

  (* telling (or marking pending) a known point changes nothing, whatever the value *)
  Theorem C10_l1d_retell_noop : forall (s : st) x y' v, dget x (L1D.data s) = Some v ->
    tell s x y' = s /\ tell_pending s x = s.
  Proof. exact (fun s x y' v => L1DBK.l1d_retell_noop sub mul div ltb eqb zero one inf neg_inf is_nan is_inf round12 L P s x y' (v:=v)). Qed.

  Theorem C10_l1d_discard : forall s : st,
    L1D.pend (L1D.remove_unfinished s) = [] /\
    L1D.data (L1D.remove_unfinished s) = L1D.data s /\
    L1D.losc (L1D.remove_unfinished s) = L1D.los (L1D.remove_unfinished s) /\
    loss (L1D.remove_unfinished s) false = loss (L1D.remove_unfinished s) true.
  Proof. exact (L1DBK.l1d_discard sub div ltb eqb inf is_nan is_inf round12 P). Qed.
End C10_l1d.

(* ---------------------------------------------------------------------- *)
(* AverageLearner (Model/Avg.v; [tell] keeps the FIRST value of a seed), every
   number structure [N], every configuration [c].  All histories are over the
   model's ops: ask (committing or not), tell, tell_pending, remove_unfinished
   ([BaseLearner.tell_many] is a loop of [tell]). *)
Section C10_avg.
  Variable N : AvgNum.NumOps.
  Notation st := (Avg.st N).
  Notation op := (Avg.op N).

  (* ALL histories: data maps each told seed to the value of its first tell and
     holds nothing else; every seed once *)
  Theorem C10_avg_data_exact : forall (c : Avg.cfg N) (h : list op) seed,
    Avg.lookup N seed (Avg.data (Avg.reach c h)) = Avg.first_told h seed /\
    NoDup (Avg.keys (Avg.reach c h)) /\
    (In seed (Avg.keys (Avg.reach c h)) <-> Avg.first_told h seed <> None).
  Proof. exact (@BookkeepingAvg.avg_data_exact N). Qed.

  (* post-condition of tell, every state: the told seed is not pending -- unless
     it was known AND pending before, which only [tell_pending] of a known seed
     produces (AverageLearner.tell_pending has no guard; the reading of DESIGN
     section 7 C10) *)
  Theorem C10_avg_told_not_pending : forall (s : st) k v,
    (In k (Avg.keys s) -> ~ In k (Avg.pend s)) -> ~ In k (Avg.pend (Avg.tell s k v)).
  Proof. exact (@BookkeepingAvg.avg_told_not_pending N). Qed.

  (* along every history that marks only unknown seeds as pending (committing
     asks of any size included: they hand out fresh seeds), data and the pending
     set are disjoint *)
  Theorem C10_avg_data_pending_disjoint : forall (c : Avg.cfg N) (h : list op),
    BookkeepingAvg.polite c (Avg.init N) h = true ->
    forall k, In k (Avg.pend (Avg.reach c h)) -> ~ In k (Avg.keys (Avg.reach c h)).
  Proof. exact (@BookkeepingAvg.avg_data_pending_disjoint N). Qed.

  (* a seed returned by a committing ask is pending and stays so along every
     continuation that neither tells it nor discards (every state) *)
  Theorem C10_avg_asked_is_pending : forall (c : Avg.cfg N) (s : st) n hint (h : list op) i,
    In i (BookkeepingAvg.asked_points (snd (Avg.ask c s n true hint))) ->
    forallb (BookkeepingAvg.keeps i) h = true ->
    In i (Avg.pend (Avg.run c (fst (Avg.ask c s n true hint)) h)).
  Proof. exact (@BookkeepingAvg.avg_asked_is_pending N). Qed.

  (* npoints = len(data) = number of distinct told seeds, ALL histories *)
  Theorem C10_avg_npoints : forall (c : Avg.cfg N) (h : list op),
    Avg.npoints (Avg.reach c h) = length (BookkeepingAvg.told_set h) /\
    length (Avg.data (Avg.reach c h)) = length (BookkeepingAvg.told_set h) /\
    NoDup (BookkeepingAvg.told_set h) /\
    (forall k, In k (BookkeepingAvg.told_set h) <-> exists v, In (Avg.Tell N k v) h).
  Proof. exact (@BookkeepingAvg.avg_npoints N). Qed.

  (* telling a known seed again changes nothing at all, whatever the value *)
  Theorem C10_avg_retell_noop : forall (s : st) k v' w,
    Avg.lookup N k (Avg.data s) = Some w -> Avg.tell s k v' = s.
  Proof. exact (@BookkeepingAvg.avg_retell_noop N). Qed.

  Theorem C10_avg_discard : forall (c : Avg.cfg N) (s : st),
    Avg.pend (Avg.remove_unfinished s) = [] /\
    Avg.data (Avg.remove_unfinished s) = Avg.data s /\
    Avg.npoints (Avg.remove_unfinished s) = Avg.npoints s /\
    Avg.loss c (Avg.remove_unfinished s) false = Avg.loss c (Avg.remove_unfinished s) true.
  Proof. exact (@BookkeepingAvg.avg_discard N). Qed.
End C10_avg.

(* ---------------------------------------------------------------------- *)
(* AverageLearner1D: Model/Avg1D.v with the pending-point overlay
   Model/Avg1DPend.v; points are (seed, x); [tell] keeps the FIRST value of a
   (seed, x).  Generic in the number structure [N]; the theorems that compare
   abscissae need == on abscissae to be an equivalence ([EqLaws]; inhabited by
   the integers: C10_eqlaws_Z; true of doubles except NaN, which the bounds
   check excludes).  "legal" is C16's quantifier domain of the sample model
   (abscissae in bounds; a batch is a non-empty dict; ask n >= 1).
   Not modelled: loss() -- hence C10_avg1d_discard_partial. *)
Theorem C10_eqlaws_Z : BookkeepingAvg1D.EqLaws BookkeepingAvg.ZOps.
Proof. exact BookkeepingAvg1D.ZOps_eqlaws. Qed.

Section C10_avg1d.
  Variable N : AvgNum.NumOps.
  Variable tppf : nat -> AvgNum.num N.
  Hypothesis EL : BookkeepingAvg1D.EqLaws N.
  Notation pst := (Avg1DPend.pst N).
  Notation pop := (Avg1DPend.pop N).
  Notation key := (Avg1DPend.key N).
  Notation pstep := (Avg1DPend.pstep tppf).
  Notation prun := (Avg1DPend.prun tppf).
  Notation preach := (Avg1DPend.preach tppf).
  Notation legalh c h := (Avg1D.legal tppf c (Avg1D.init N) (Avg1DPend.base_ops h) = true).
  Notation told_keys h := (flat_map (@Avg1DPend.told_keys_op N) (Avg1DPend.flat (Avg1DPend.base_ops h))).

  (* the samples held at x are exactly the samples told at (an abscissa == to)
     x: each seed once, with the value of its first tell, in order of first tell *)
  Theorem C10_avg1d_data_exact : forall (c : Avg1D.cfg N) (h : list pop) x, legalh c h ->
    Avg1DPend.samples_at x (Avg1DPend.base (preach c h)) =
    Avg1DPend.spec_samples (Avg1DPend.flat (Avg1DPend.base_ops h)) x.
  Proof. exact (@BookkeepingAvg1D.a1d_data_exact N tppf EL). Qed.

  (* (seed, x) has a value iff it was told; x is in data iff a sample was told there *)
  Theorem C10_avg1d_told_exact : forall (c : Avg1D.cfg N) (h : list pop), legalh c h ->
    (forall k : key, Avg1DPend.toldb (Avg1DPend.base (preach c h)) k = existsb (Avg1DPend.keqb k) (told_keys h)) /\
    (forall x, Avg1D.find_pt x (Avg1DPend.base (preach c h)) <> None <->
               exists k : key, In k (told_keys h) /\ AvgNum.n_eqb N x (snd k) = true).
  Proof.
    exact (fun c h Hl => conj (fun k => @BookkeepingAvg1D.a1d_told_exact N tppf EL c h k Hl)
                              (fun x => @BookkeepingAvg1D.a1d_abscissae_exact N tppf EL c h x Hl)).
  Qed.

  (* post-conditions of tell / tell_many_at_point / tell_many, every state: the
     told (seed, x) are not pending (no laws needed) *)
  Theorem C10_avg1d_told_not_pending :
    (forall (c : Avg1D.cfg N) (s : pst) seed x y,
       Avg1DPend.pmem (seed, x) (Avg1DPend.pend (fst (pstep c s (Avg1DPend.PTell seed x y)))) = false) /\
    (forall (c : Avg1D.cfg N) (s : pst) x l m seed, Avg1D.in_bounds c x = true -> In seed (map fst l) ->
       Avg1DPend.pmem (seed, x) (Avg1DPend.pend (fst (pstep c s (Avg1DPend.PTellManyAt x l m)))) = false) /\
    (forall (c : Avg1D.cfg N) (s : pst) trip hints seed x,
       forallb (fun e => Avg1D.in_bounds c (snd (fst e))) trip = true -> (exists y, In (seed, x, y) trip) ->
       Avg1DPend.pmem (seed, x) (Avg1DPend.pend (fst (pstep c s (Avg1DPend.PTellMany trip hints)))) = false).
  Proof.
    exact (conj (@BookkeepingAvg1D.a1d_told_not_pending N tppf)
          (conj (@BookkeepingAvg1D.a1d_told_not_pending_batch N tppf)
                (@BookkeepingAvg1D.a1d_told_not_pending_many N tppf))).
  Qed.

  (* data and pending are disjoint along every legal history that marks only
     (seed, x) without a value as pending AND in which the seeds at every
     abscissa are consecutive (all below the count there) whenever a committing
     ask is made.  The last hypothesis excludes exactly the trigger of finding
     C10:F22; without it the statement is false of the model and of the code
     (C10_avg1d_commit_hands_out_told_refuted). *)
  Theorem C10_avg1d_data_pending_disjoint : forall (c : Avg1D.cfg N) (h : list pop),
    legalh c h -> Avg1DPend.polite tppf c (Avg1DPend.pinit N) h = true ->
    Avg1DPend.consec_at_asks tppf c (Avg1DPend.pinit N) h = true ->
    forall k : key, Avg1DPend.pmem k (Avg1DPend.pend (preach c h)) = true ->
                    Avg1DPend.toldb (Avg1DPend.base (preach c h)) k = false.
  Proof. exact (@BookkeepingAvg1D.a1d_data_pending_disjoint N tppf EL). Qed.

  (* a (seed, x) returned by a committing ask is pending and stays so along
     every continuation that neither tells it nor discards (every state) *)
  Theorem C10_avg1d_asked_is_pending : forall (c : Avg1D.cfg N) (s : pst) n hint (h : list pop) (k : key),
    In k (Avg1DPend.asked (snd (pstep c s (Avg1DPend.PAsk n true hint)))) ->
    forallb (BookkeepingAvg1D.keeps k) h = true ->
    Avg1DPend.pmem k (Avg1DPend.pend (prun c (fst (pstep c s (Avg1DPend.PAsk n true hint))) h)) = true.
  Proof. exact (@BookkeepingAvg1D.a1d_asked_is_pending N tppf EL). Qed.

  (* nsamples (the sum of _number_samples) = number of distinct told (seed, x) *)
  Theorem C10_avg1d_nsamples : forall (c : Avg1D.cfg N) (h : list pop), legalh c h ->
    Avg1D.nsamples (Avg1DPend.base (preach c h)) =
      length (Avg1DPend.told_set (Avg1DPend.flat (Avg1DPend.base_ops h))) /\
    (forall k : key, Avg1DPend.pmem k (Avg1DPend.told_set (Avg1DPend.flat (Avg1DPend.base_ops h))) =
                     existsb (Avg1DPend.keqb k) (told_keys h)).
  Proof. exact (@BookkeepingAvg1D.a1d_nsamples N tppf EL). Qed.

  (* telling a (seed, x) that has a value (and is not pending) changes nothing, whatever the value *)
  Theorem C10_avg1d_retell_noop : forall (c : Avg1D.cfg N) (s : pst) seed x y,
    Avg1DPend.toldb (Avg1DPend.base s) (seed, x) = true -> Avg1DPend.pmem (seed, x) (Avg1DPend.pend s) = false ->
    fst (pstep c s (Avg1DPend.PTell seed x y)) = s.
  Proof. exact (@BookkeepingAvg1D.a1d_retell_noop N tppf). Qed.

  (* discard: pending empty, samples untouched (the two losses: not modelled) *)
  Theorem C10_avg1d_discard_partial : forall (c : Avg1D.cfg N) (s : pst),
    Avg1DPend.pend (fst (pstep c s Avg1DPend.PRemoveUnfinished)) = [] /\
    Avg1DPend.base (fst (pstep c s Avg1DPend.PRemoveUnfinished)) = Avg1DPend.base s.
  Proof. exact (@BookkeepingAvg1D.a1d_discard N tppf). Qed.
End C10_avg1d.

(* finding C10:F22 on the model (integers): legal, polite history; seeds 0 and
   2 at x = 5; the committing ask(1) returns (2, 5), which has a value, and
   marks it pending *)
Theorem C10_avg1d_commit_hands_out_told_refuted :
  exists (c : Avg1D.cfg BookkeepingAvg.ZOps) (h : list (Avg1DPend.pop BookkeepingAvg.ZOps))
         (k : Avg1DPend.key BookkeepingAvg.ZOps),
    let t : nat -> AvgNum.num BookkeepingAvg.ZOps := fun _ : nat => 1%Z in
    Avg1D.legal t c (Avg1D.init BookkeepingAvg.ZOps) (Avg1DPend.base_ops h) = true /\
    Avg1DPend.polite t c (Avg1DPend.pinit BookkeepingAvg.ZOps) h = true /\
    Avg1DPend.consec_at_asks t c (Avg1DPend.pinit BookkeepingAvg.ZOps) h = false /\
    Avg1DPend.pmem k (Avg1DPend.pend (Avg1DPend.preach t c h)) = true /\
    Avg1DPend.toldb (Avg1DPend.base (Avg1DPend.preach t c h)) k = true.
Proof. exact BookkeepingAvg1D.a1d_commit_hands_out_told_pf. Qed.

(* non-vacuity (Seq): legal history with an unsolicited tell, a re-tell with a
   different value (overwrites), a discard *)
Example C10_example_seq :
  let h := [Seq.Ask 3 true; Seq.Tell 1 10; Seq.Tell 4 40; Seq.Tell 1 11; Seq.RemoveUnfinished] in
  Seq.legal (Seq.init nat 5) h = true /\
  Seq.data (SeqProofs.reach nat 5 h) = [(1, 11); (4, 40)] /\
  Seq.pend (SeqProofs.reach nat 5 h) = [] /\ SeqBK.told_set nat h = [1; 4].
Proof. vm_compute. repeat split. Qed.

(* non-vacuity (L1D over Z, loss function constantly 1): an incremental
   history with a committing ask, a tell of a pending point, a re-tell with a
   different value (ignored) and an unsolicited point *)
Example C10_example_l1d :
  let P := L1D.mkparams (0%Z) (8%Z) (0%Z) 0 (2%Z) in
  let Lc := fun (_ : list (option Z)) (_ : list (option (L1D.Y Z))) => 1%Z in
  let run := @L1D.run Z Z.add Z.sub Z.mul Z.div Z.ltb Z.eqb 0%Z 1%Z 1000000%Z (-1000000)%Z
                      (fun _ => false) (fun z => Z.eqb (Z.abs z) 1000000) (fun z => z) Z.of_nat Lc P in
  let init := @L1D.init Z Z.sub 0%Z 1000000%Z (-1000000)%Z P in
  let h := [L1D.Ask 2 true; L1D.Tell 0%Z (L1D.YS 5%Z); L1D.Tell 0%Z (L1D.YS 6%Z);
            L1D.Tell 3%Z (L1D.YS 9%Z); L1D.Ask 1 false] in
  @L1DBK.incremental Z Z.add Z.sub Z.mul Z.div Z.ltb Z.eqb 0%Z 1%Z 1000000%Z (-1000000)%Z
        (fun _ => false) (fun z => Z.eqb (Z.abs z) 1000000) (fun z => z) Z.of_nat Lc P init h = true /\
  L1D.data (run init h) = [(0%Z, L1D.YS 5%Z); (3%Z, L1D.YS 9%Z)] /\
  L1D.pend (run init h) = [8%Z] /\
  L1DBK.first_told Z.eqb h 0%Z = Some (L1D.YS 5%Z).
Proof. vm_compute. repeat split. Qed.

(* non-vacuity (Avg over the integers): a polite history with a committing
   ask, an unsolicited out-of-order tell (the next ask takes the fallback
   branch), a re-tell with another value (ignored), tell_pending, a discard and
   a non-committing ask *)
Example C10_example_avg :
  let N := BookkeepingAvg.ZOps in
  let c := Avg.mkcfg N 1%Z 1%Z 2 true in
  let h := [Avg.Ask 2 true []; Avg.Tell N 1 7%Z; Avg.Tell N 4 9%Z; Avg.Tell N 1 8%Z;
            Avg.TellPending 6; Avg.Ask 2 true [2; 3]; Avg.Ask 3 false []] in
  BookkeepingAvg.polite c (Avg.init N) h = true /\
  Avg.data (Avg.reach c h) = [(1, 7%Z); (4, 9%Z)] /\
  Avg.pend (Avg.reach c h) = [0; 2; 3; 6] /\
  BookkeepingAvg.told_set h = [1; 4] /\
  Avg.first_told h 1 = Some 7%Z /\
  Avg.pend (Avg.remove_unfinished (Avg.reach c h)) = [].
Proof. vm_compute. repeat split. Qed.

(* the hypothesis of C10_avg_told_not_pending / the politeness proviso is
   needed: marking a KNOWN seed pending leaves it in both sets (remark, not a
   finding: only Learner1D.tell_pending guards against it) *)
Example C10_avg_known_marked_pending_remark :
  let N := BookkeepingAvg.ZOps in
  let c := Avg.mkcfg N 1%Z 1%Z 2 true in
  let h := [Avg.Tell N 0 5%Z; Avg.TellPending 0; Avg.Tell N 0 5%Z] in
  Avg.pend (Avg.reach c h) = [0] /\ Avg.keys (Avg.reach c h) = [0].
Proof. vm_compute. repeat split. Qed.

(* non-vacuity (Avg1D over the integers): legal, polite, consecutive seeds at the
   committing asks; a committing ask on the empty learner, tells of the returned
   samples, tell_pending of an unsolicited (seed, x), a batch at a new abscissa,
   a re-tell with another value (ignored), a committing ask to the undersampled
   abscissa, a non-committing ask *)
Example C10_example_avg1d :
  let Z0 := BookkeepingAvg.ZOps in
  let t : nat -> AvgNum.num Z0 := fun _ => 1%Z in
  let c := Avg1D.mkcfg Z0 (-10)%Z 10%Z 2 1%Z true in
  let h := [@Avg1DPend.PAsk Z0 2 true [(0, 3%Z)]; @Avg1DPend.PTell Z0 0 3%Z 7%Z; @Avg1DPend.PTell Z0 1 3%Z 9%Z;
            @Avg1DPend.PTellPending Z0 (5, 4%Z); @Avg1DPend.PTellManyAt Z0 4%Z [(0, 1%Z); (1, 2%Z)] 2%Z;
            @Avg1DPend.PTell Z0 0 3%Z 100%Z; @Avg1DPend.PAsk Z0 1 true [(2, 4%Z)];
            @Avg1DPend.PAsk Z0 2 false [(2, 4%Z)]] in
  Avg1D.legal t c (Avg1D.init Z0) (Avg1DPend.base_ops h) = true /\
  Avg1DPend.polite t c (Avg1DPend.pinit Z0) h = true /\
  Avg1DPend.consec_at_asks t c (Avg1DPend.pinit Z0) h = true /\
  Avg1DPend.pend (Avg1DPend.preach t c h) = [(5, 4%Z); (2, 4%Z)] /\
  @Avg1DPend.samples_at Z0 3%Z (Avg1DPend.base (Avg1DPend.preach t c h)) = [(0, 7%Z); (1, 9%Z)] /\
  Avg1D.nsamples (Avg1DPend.base (Avg1DPend.preach t c h)) = 4.
Proof. vm_compute. repeat split. Qed.

Print Assumptions C10_seq_data_exact.
Print Assumptions C10_seq_data_determined.
Print Assumptions C10_seq_told_not_pending.
Print Assumptions C10_seq_data_pending_disjoint.
Print Assumptions C10_seq_asked_is_pending.
Print Assumptions C10_seq_npoints.
Print Assumptions C10_seq_retell_noop.
Print Assumptions C10_seq_discard.
Print Assumptions C10_order_laws_Z.
Print Assumptions C10_l1d_inv.
Print Assumptions C10_l1d_data_exact.
Print Assumptions C10_l1d_batch_overwrites.
Print Assumptions C10_l1d_told_not_pending.
Print Assumptions C10_l1d_data_pending_disjoint.
Print Assumptions C10_l1d_asked_is_pending.
Print Assumptions C10_l1d_npoints.
Print Assumptions C10_l1d_retell_noop.
Print Assumptions C10_l1d_discard.
Print Assumptions C10_avg_data_exact.
Print Assumptions C10_avg_told_not_pending.
Print Assumptions C10_avg_data_pending_disjoint.
Print Assumptions C10_avg_asked_is_pending.
Print Assumptions C10_avg_npoints.
Print Assumptions C10_avg_retell_noop.
Print Assumptions C10_avg_discard.
Print Assumptions C10_eqlaws_Z.
Print Assumptions C10_avg1d_data_exact.
Print Assumptions C10_avg1d_told_exact.
Print Assumptions C10_avg1d_told_not_pending.
Print Assumptions C10_avg1d_data_pending_disjoint.
Print Assumptions C10_avg1d_asked_is_pending.
Print Assumptions C10_avg1d_nsamples.
Print Assumptions C10_avg1d_retell_noop.
Print Assumptions C10_avg1d_discard_partial.
Print Assumptions C10_avg1d_commit_hands_out_told_refuted.
