(* Property C07 -- IntegratorLearner survives any evaluation order and always
   covers the interval.  Statements only; proofs are in Proofs/IntegratorProofs.v.

   The model (Model/Integrator.v) is the bookkeeping of IntegratorLearner with
   every numeric decision supplied by the environment (the [choice]s of an
   [Ask], the [verdict]s of a [Tell]), so each theorem holds for every
   integrand, every tolerance, every schedule.  [repaired = false] is the code
   as it stands, [repaired = true] the code after
   fixes/F1_integrator_priority_split.patch. *)
From AV Require Import Base.Prelude Model.Integrator Proofs.IntegratorProofs Proofs.IntegratorPartition.

Section C07.
  Variable X : Type.                                (* abscissae *)
  Variable eqb : X -> X -> bool.
  Variable points : X -> X -> nat -> list X.        (* the rule of depth d on (a,b) *)
  Variable dflt : X.
  Hypothesis eqb_spec : forall x y, eqb x y = true <-> x = y.

  (* The concatenation of all committed ask answers has no duplicates, for both
     variants of the code, every history, every oracle answer.  (Invariant
     [PInv]: handed-out points and the stack are duplicate-free and inside
     pending + data; a point is pushed only when neither evaluated nor pending
     and leaves pending only by being evaluated.) *)
  Theorem C07_no_double_handout : forall repaired lo hi maxiv (h : list (op X)),
    NoDup (handed (outs eqb points repaired dflt (init eqb points repaired dflt lo hi maxiv) h)).
  Proof. intros repaired. apply no_double_handout; auto. Qed.

  (* tell x with x in no interval -- x is not an abscissa of the rule of any depth
     <= the current depth of any interval ever created -- is the ValueError outcome
     and leaves the state unchanged.  (Invariant [XL]: every key of x_mapping is
     such an abscissa; [C07_rejects_unmapped] is the code's own test.) *)
  Theorem C07_rejects_foreign : forall repaired lo hi maxiv (h : list (op X)) x vs,
    let s := run eqb points repaired dflt (init eqb points repaired dflt lo hi maxiv) h in
    halted s = false -> ~ belongs points dflt s x ->
    step eqb points repaired dflt s (Tell x vs) = (s, ([], EValue)).
  Proof. intros repaired. apply rejects_foreign_geometric; auto. Qed.

  Theorem C07_rejects_unmapped : forall repaired (s : st X) x vs,
    halted s = false -> xmap_mem eqb x (xmap s) = false ->
    step eqb points repaired dflt s (Tell x vs) = (s, ([], EValue)).
  Proof. intros repaired. apply rejects_foreign. Qed.

  (* The repaired code never reaches an assert / KeyError / IndexError, whatever
     the oracle answers; only nestedness of the rules is assumed of [points]. *)
  Theorem C07_no_internal_error :
    (forall a b d, incl (points a b d) (points a b (S d))) ->
    forall lo hi maxiv (h : list (op X)),
    Forall (fun o => internal_error (snd o) = false)
           (outs eqb points true dflt (init eqb points true dflt lo hi maxiv) h).
  Proof. intros Hn. apply no_internal_error; auto. Qed.

  (* A cover of an interval ({I} or the union of covers of both children) is,
     read from left to right, a chain of non-empty intervals from a(I) to b(I):
     contiguous, no gap, no overlap, strictly increasing left ends. *)
  Theorem C07_cover_is_partition : forall (lt : X -> X -> Prop) repaired lo hi maxiv (h : list (op X)) i L,
    let s := run eqb points repaired dflt (init eqb points repaired dflt lo hi maxiv) h in
    strict dflt lt s -> Cover dflt s i L -> i < length (ivs s) ->
    L <> [] /\ chain lt (a (get dflt s i)) (map (ab dflt s) L) (b (get dflt s i)).
  Proof.
    intros lt repaired lo hi maxiv h i L s Hst HC Hi.
    eapply cover_is_partition; eauto. apply TW_run, TW_init.
  Qed.

  (* C07_partition: in every reachable state (both variants of the code, every
     history, every oracle answer) approximating_intervals is empty or the leaf
     set of a cover of the first interval; with every interval of the arena
     non-degenerate ([strict], evaluated on every correspondence case) the cover,
     read from left to right, is a chain from lo to hi: contiguous, no gap, no
     overlap, left ends strictly increasing.  igral / err are sums over that set
     by definition of the properties.  (Loop invariant of the done_leaves
     propagation: Proofs/IntegratorPartition.v, [loop_ok].) *)
  Theorem C07_partition : forall (lt : X -> X -> Prop),
    (forall x y z, lt x y -> lt y z -> lt x z) ->
    forall repaired lo hi maxiv (h : list (op X)),
    let s := run eqb points repaired dflt (init eqb points repaired dflt lo hi maxiv) h in
    strict dflt lt s ->
    exists Sl, approximating_intervals dflt s = Some Sl /\
      (Sl = [] \/
       exists L, Cover dflt s 0 L /\ (forall k, In k Sl <-> In k L) /\ L <> [] /\
                 chain lt lo (map (ab dflt s) L) hi /\
                 Sorted.StronglySorted lt (map fst (map (ab dflt s) L))).
  Proof. intros lt Htr repaired. apply partition_full; auto. Qed.

  (* once the first rule is complete (the estimate is non-empty) it stays non-empty *)
  Theorem C07_partition_stays : forall repaired lo hi maxiv (h1 h2 : list (op X)),
    let s1 := run eqb points repaired dflt (init eqb points repaired dflt lo hi maxiv) h1 in
    (exists k Sl, approximating_intervals dflt s1 = Some (k :: Sl)) ->
    exists k Sl, approximating_intervals dflt (run eqb points repaired dflt s1 h2) = Some (k :: Sl).
  Proof. intros repaired lo hi maxiv h1 h2. exact (@estimate_stays X eqb points repaired dflt eqb_spec lo hi maxiv h1 h2). Qed.

  (* soundness of the executable certificate that Run/IntegratorRun.v evaluates
     after every operation of every correspondence case *)
  Theorem C07_partition_certificate_sound : forall (lt : X -> X -> Prop),
    (forall x y z, lt x y -> lt y z -> lt x z) ->
    forall repaired lo hi maxiv (h : list (op X)) Sl,
    let s := run eqb points repaired dflt (init eqb points repaired dflt lo hi maxiv) h in
    strict dflt lt s ->
    approximating_intervals dflt s = Some Sl ->
    partition_cert dflt s Sl = true ->
    exists L, Cover dflt s 0 L /\ (forall k, In k Sl <-> In k L) /\ L <> [] /\
              chain lt lo (map (ab dflt s) L) hi /\
              Sorted.StronglySorted lt (map fst (map (ab dflt s) L)).
  Proof.
    intros lt Htr repaired. apply partition_certified; auto.
  Qed.
End C07.

(* ---------------------------------------------------------------------- *)
(* A small exact instance: abscissae are naturals, the rule of depth d on (a,b)
   has 2^(d+2)+1 equidistant nodes (step (b-a)/32 at depth 3), nested for every
   a, b, d.  It is used to refute C07_no_internal_error for the unrepaired
   model and to show that the hypotheses above are satisfiable. *)
Definition tstep (a b : nat) := (b - a) / 32.
Definition tpts (a b d : nat) : list nat :=
  map (fun k => a + k * 2 ^ (3 - d) * tstep a b) (seq 0 (2 ^ (Nat.min d 3 + 2) + 1)).

Lemma tpts_nested : forall a b d, incl (tpts a b d) (tpts a b (S d)).
Proof.
  intros a b d x Hx. unfold tpts in *. apply in_map_iff in Hx as [k [<- Hk]]. apply in_seq in Hk.
  destruct d as [|[|[|d]]].
  - apply in_map_iff. exists (2 * k). split; [cbn; lia|]. apply in_seq. cbn in *. lia.
  - apply in_map_iff. exists (2 * k). split; [cbn; lia|]. apply in_seq. cbn in *. lia.
  - apply in_map_iff. exists (2 * k). split; [cbn; lia|]. apply in_seq. cbn in *. lia.
  - replace (Nat.min (S (S (S (S d)))) 3) with 3 by lia.
    replace (Nat.min (S (S (S d))) 3) with 3 in Hk by lia.
    replace (3 - S (S (S (S d)))) with 0 by lia. replace (3 - S (S (S d))) with 0 by lia.
    apply in_map_iff. exists k. split; [reflexivity|]. apply in_seq. exact Hk.
Qed.

Definition T := Tell (X:=nat).
Definition P := Proceed.
Definition c0 (i : nat) := mkC i false [] None.
Definition tinit rep := init Nat.eqb tpts rep 0 0 4096 1000.
Definition touts rep h := map snd (outs Nat.eqb tpts rep 0 (tinit rep) h).

(* ask(34): the first interval is refined to depth 3 and split, its left child
   (id 1) refined to depth 3, all before any value arrives; then the values of
   the 33 points of the first interval arrive from right to left, x = 0 last *)
Definition prefix : list (op nat) :=
  [Ask 34 [c0 0; c0 0; c0 1; c0 1; c0 1]] ++
  map (fun k => T ((32 - k) * 128) (if k =? 16 then [P false false] else [])) (seq 0 32).

(* F1a: with x = 0 interval 1 completes depths 0, 1 and 2 in one tell; depths 1
   and 2 both ask for a forced split: queued twice; the second pop finds children *)
Definition hF1a := prefix ++ [T 0 [P false false; P false false; P false false; P true false; P true false];
                              Ask 20 [mkC 0 false [P false false; P false false] None; c0 2]].
(* F1b: removed at depth 0, forced split at depth 1 *)
Definition hF1b := prefix ++ [T 0 [P false false; P false false; P false true; P true false]].
(* F1c: queued at depth 1, removed at depth 2, popped by the next ask *)
Definition hF1c := prefix ++ [T 0 [P false false; P false false; P false false; P true false; P false true];
                              Ask 20 [c0 0]].

(* The unchanged code reaches each of its three internal errors
   (site 3: assert not ival.children; 2: assert ival in self.ivals; 4: KeyError). *)
Theorem C07_no_internal_error_refuted_unfixed :
  (forall a b d, incl (tpts a b d) (tpts a b (S d))) /\
  last (touts false hF1a) ENone = EInternal 3 /\
  last (touts false hF1b) ENone = EInternal 2 /\
  last (touts false hF1c) ENone = EInternal 4.
Proof. split; [exact tpts_nested|]. vm_compute. repeat split. Qed.

(* non-vacuity: the same schedule on the repaired model runs on (forced split of
   interval 1, refinement of interval 2 with values already known), ends with
   approximating_intervals = {2, 3, 4}: a certified partition of [0, 4096] *)
Definition hOK := prefix ++ [T 0 [P false false; P false false; P false false; P true false; P true false];
                             Ask 20 [mkC 0 false [P false false; P false false] None;
                                     mkC 2 false [P false false] None; mkC 2 false [P false false] None; c0 2]].
Example C07_example :
  let s := run Nat.eqb tpts true 0 (tinit true) hOK in
  halted s = false /\ live s = [2; 3; 4] /\ prio s = [] /\
  approximating_intervals 0 s = Some [2; 3; 4] /\ partition_cert 0 s [2; 3; 4] = true /\
  map (ab 0 s) [3; 4; 2] = [(0, 1024); (1024, 2048); (2048, 4096)] /\
  forallb (fun iv => a iv <? b iv) (ivs s) = true /\
  length (handed (outs Nat.eqb tpts true 0 (tinit true) hOK)) = 54.
Proof. vm_compute. repeat split. Qed.

Print Assumptions C07_no_double_handout.
Print Assumptions C07_rejects_foreign.
Print Assumptions C07_rejects_unmapped.
Print Assumptions C07_no_internal_error.
Print Assumptions C07_cover_is_partition.
Print Assumptions C07_partition.
Print Assumptions C07_partition_stays.
Print Assumptions C07_partition_certificate_sound.
Print Assumptions C07_no_internal_error_refuted_unfixed.
