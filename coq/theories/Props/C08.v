(* Property C08 -- IntegratorLearner: converged integrals are right and match
   Gonnet's algorithm 4.

   FULL STATEMENT (properties.jsonl):
     When the integrator declares itself done for an integrand whose integral
     is known in closed form, the reported value differs from the exact
     integral by no more than the larger of the reported error and the
     requested relative tolerance (plus rounding), also when values arrive out
     of order and when the integrand is non-finite at isolated nodes.  Fed
     sequentially, it reproduces the value and error estimate of the reference
     implementation of Gonnet's doubly-adaptive algorithm 4 for the same number
     of evaluations.  For all integrands in parameterised families with
     closed-form integrals (polynomials up to degree 12, exponentials,
     oscillatory, Lorentzian and Gaussian peaks, square-root end-point
     singularity, kinks and jumps), all ranges and tolerances 1e-10..1e-3,
     sequential and shuffled delivery.

   C08_accuracy_partial.  THE FULL STATEMENT IS NOT A THEOREM HERE AND CANNOT
   BE ONE: Gonnet's error estimate (the L2 distance of two successive
   interpolants) is a heuristic without a proof of reliability, and "equal to
   tests/algorithm_4.py" is a statement about two floating-point programs.
   Both clauses are decided on every run only by the search step of the check
   (harness/avh/props/c08.py) on the real class.  What IS proved below, for
   all inputs, is the part of the property that is mathematics:

   (a) the idealised rule (Model/QuadAlg.v: exact rationals, ANY n <= 33
       pairwise distinct nodes and the exact inverse of their Legendre matrix)
       returns the exact integral of every polynomial of degree < n on every
       range; interpolation in the Legendre basis is unique; the
       coefficient vectors of two depths agree after padding, hence the error
       estimate is 0 and done() holds for every tolerance -- this covers the
       polynomial family of the property (degree <= 12 < 17);
   (b) after a split the shifted parent coefficients (T_left / T_right) are
       the child's own coefficients for polynomials of degree < 5, so the
       child's error estimate is 0, and the two halves add up to the parent;
   (c) calc_igral is linear in the function values and scales with (b - a);
       calc_err is 0 whenever the padded coefficient vectors agree;
   (d) over R: the code's formulas in the orthonormal basis
       ((b - a) c_0 / sqrt 2, (b - a) ||c_old - c_new||_2) are the rational
       model's formulas in the unnormalised basis;
   (e) facts about the constants the code actually computed
       (Props/C08consts.v, owned by the constants translator; counted as C08
       obligations by the check when that file is present -- it is not
       Required here because coqchk needs > 40 min for its vm_compute proofs).

   This file contains only statements closed by [exact]. *)
From Coq Require Import QArith Qcanon List Reals.
From AV Require Import Model.QuadAlg Proofs.QuadProofs Proofs.QuadUnique Proofs.QuadReal.
Import ListNotations.

Section C08_rational.
  Local Open Scope Qc_scope.

  (* interpolation in a basis with an exact left inverse reproduces the
     coefficients: V_inv (V c) = c *)
  Theorem C08_coeffs_recovered : forall n (Vinv V : mat) (c : vec),
    left_inverse n Vinv V -> forall i, (i < n)%nat -> coeffs n Vinv (mv n V c) i = c i.
  Proof. exact coeffs_recovered. Qed.

  (* calc_igral is the exact integral for every polynomial of degree < n, on
     every interval [a, b] (also b < a), for any n <= 33 nodes *)
  Theorem C08_igral_exact_poly : forall n (xi : vec) (Vinv : mat) (a b : Qc) (p : poly),
    (n <= NMAX)%nat -> left_inverse n Vinv (Vmat xi) -> (length p <= n)%nat ->
    calc_igral a b (coeffs n Vinv (fun j => peval p (node_ab a b xi j))) = pint p a b.
  Proof. exact igral_exact_poly. Qed.

  (* the same for ANY n <= 33 pairwise distinct nodes and the exact inverse of
     their Legendre matrix, given as a right inverse (V Vinv = I) *)
  Theorem C08_igral_exact_poly_distinct_nodes :
    forall n (xi : vec) (Vinv : mat) (a b : Qc) (p : poly),
    (n <= NMAX)%nat -> distinct n xi -> right_inverse n Vinv (Vmat xi) -> (length p <= n)%nat ->
    calc_igral a b (coeffs n Vinv (fun j => peval p (node_ab a b xi j))) = pint p a b.
  Proof. exact igral_exact_poly_distinct. Qed.

  (* uniqueness of interpolation: the node values determine the coefficients *)
  Theorem C08_interpolation_unique : forall n (xi : vec) (c c' : vec),
    (n <= NMAX)%nat -> distinct n xi ->
    (forall j, (j < n)%nat -> mv n (Vmat xi) c j = mv n (Vmat xi) c' j) ->
    forall k, (k < n)%nat -> c k = c' k.
  Proof. exact interpolation_unique. Qed.

  Theorem C08_right_inverse_is_left : forall n (xi : vec) (Vinv : mat),
    (n <= NMAX)%nat -> distinct n xi ->
    right_inverse n Vinv (Vmat xi) -> left_inverse n Vinv (Vmat xi).
  Proof. exact right_inverse_is_left. Qed.

  (* [pint] is the integral: its antiderivative differentiates back to p, and
     it obeys the substitution rule x = m + h t *)
  Theorem C08_pint_antiderivative : forall p k,
    coef (pderiv (pantider p)) k = coef p k.
  Proof. exact pderiv_pantider. Qed.

  Theorem C08_pint_substitution : forall p m h,
    pint p (m - h) (m + h) = h * pint (pshift p m h) (- (1)) 1.
  Proof. exact pint_shift. Qed.

  (* the coefficient vectors of depth d (n nodes) and a deeper rule (n' nodes)
     agree after padding with zeros when the integrand is a polynomial of
     degree < n *)
  Theorem C08_coeffs_next_depth_agree :
    forall n n' (xi xi' : vec) (Vinv Vinv' : mat) (a b : Qc) (p : poly),
    (n <= n')%nat -> (n' <= NMAX)%nat ->
    left_inverse n Vinv (Vmat xi) -> left_inverse n' Vinv' (Vmat xi') -> (length p <= n)%nat ->
    forall k, (k < n')%nat ->
      coeffs n' Vinv' (fun j => peval p (node_ab a b xi' j)) k
      = pad n (coeffs n Vinv (fun j => peval p (node_ab a b xi j))) k.
  Proof. exact coeffs_next_depth. Qed.

  (* calc_err: if the padded coefficient vectors agree the error is 0, and
     done() holds for every tolerance *)
  Theorem C08_err_zero_when_coeffs_agree : forall (a b : Qc) n (c_old c_new : vec) igral tol,
    (forall k, (k < n)%nat -> c_old k = c_new k) ->
    err_sq a b n c_old c_new = 0 /\ done_sq (err_sq a b n c_old c_new) igral tol.
  Proof.
    intros a b n c_old c_new igral tol H.
    exact (conj (err_sq_zero a b n c_old c_new H) (done_when_err_zero a b n c_old c_new igral tol H)).
  Qed.

  (* the polynomial family: estimate exact, error estimate 0, done *)
  Theorem C08_poly_estimate_exact_and_done :
    forall n n' (xi xi' : vec) (Vinv Vinv' : mat) (a b : Qc) (p : poly) (tol : Qc),
    (n <= n')%nat -> (n' <= NMAX)%nat ->
    left_inverse n Vinv (Vmat xi) -> left_inverse n' Vinv' (Vmat xi') -> (length p <= n)%nat ->
    let c_old := pad n (coeffs n Vinv (fun j => peval p (node_ab a b xi j))) in
    let c_new := coeffs n' Vinv' (fun j => peval p (node_ab a b xi' j)) in
    calc_igral a b c_new = pint p a b /\
    err_sq a b n' c_old c_new = 0 /\
    done_sq (err_sq a b n' c_old c_new) (calc_igral a b c_new) tol.
  Proof. exact estimate_exact_and_done. Qed.

  (* calc_igral is linear in the function values and scales with the width *)
  Theorem C08_igral_linear : forall n (Vinv : mat) (a b : Qc) (f g : vec) (x y : Qc),
    calc_igral a b (coeffs n Vinv (fun j => x * f j + y * g j))
    = x * calc_igral a b (coeffs n Vinv f) + y * calc_igral a b (coeffs n Vinv g).
  Proof. exact calc_igral_linear. Qed.

  Theorem C08_igral_width : forall (a b a' b' : Qc) (c : vec),
    (b' - a') * calc_igral a b c = (b - a) * calc_igral a' b' c.
  Proof. exact calc_igral_width. Qed.

  (* T[:, :np] @ c_parent = coefficients of the parent's interpolant resampled
     on the half interval *)
  Theorem C08_shift_is_resampling : forall n np (Vinv : mat) (xi : vec) (s : Qc) (c : vec) i,
    (np <= n)%nat ->
    shifted n np (Tshift n Vinv xi s) c i
    = coeffs n Vinv (fun j => peval (lincomb np c) ((xi j + s) / two)) i.
  Proof. exact shifted_is_resampling. Qed.

  (* after a split (s = -1 left, s = +1 right) the shifted parent coefficients
     are the child's own coefficients, padded, for polynomials of degree < n0:
     the child's error estimate is 0 *)
  Theorem C08_split_coeffs_exact_poly :
    forall n np n0 (xi xip xi0 : vec) (Vinv Vinvp Vinv0 : mat) (a b s : Qc) (p : poly),
    (n0 <= np)%nat -> (np <= n)%nat -> (n <= NMAX)%nat ->
    left_inverse n Vinv (Vmat xi) -> left_inverse np Vinvp (Vmat xip) -> left_inverse n0 Vinv0 (Vmat xi0) ->
    (length p <= n0)%nat ->
    let a' := (a + b) / two + (s - 1) * (b - a) / (two * two) in
    let b' := (a + b) / two + (s + 1) * (b - a) / (two * two) in
    forall i, (i < n)%nat ->
      shifted n np (Tshift n Vinv xi s) (coeffs np Vinvp (fun j => peval p (node_ab a b xip j))) i
      = pad n0 (coeffs n0 Vinv0 (fun j => peval p (node_ab a' b' xi0 j))) i.
  Proof. exact split_coeffs_exact. Qed.

  (* the two halves add up to the whole, polynomials of degree < n0 *)
  Theorem C08_igral_split_additive : forall n0 (xi0 : vec) (Vinv0 : mat) (a b : Qc) (p : poly),
    (n0 <= NMAX)%nat -> left_inverse n0 Vinv0 (Vmat xi0) -> (length p <= n0)%nat ->
    let m := (a + b) / two in
    calc_igral a m (coeffs n0 Vinv0 (fun j => peval p (node_ab a m xi0 j)))
    + calc_igral m b (coeffs n0 Vinv0 (fun j => peval p (node_ab m b xi0 j)))
    = calc_igral a b (coeffs n0 Vinv0 (fun j => peval p (node_ab a b xi0 j))).
  Proof. exact igral_split_additive. Qed.

  (* the hypotheses are satisfiable: 5 and 9 distinct rational nodes (nested)
     with the exact inverses of their Legendre matrices, and a worked instance:
     int_0^3 (x^4 - x) dx = 441/10 from 5 function values *)
  Example C08_hypotheses_satisfiable :
    distinct 5 ex_nodes5 /\
    left_inverse 5 ex_Vinv5 (Vmat ex_nodes5) /\ left_inverse 9 ex_Vinv9 (Vmat ex_nodes9) /\
    calc_igral 0 (qc 3 1)
      (coeffs 5 ex_Vinv5 (fun j => peval [0; - (1); 0; 0; 1] (node_ab 0 (qc 3 1) ex_nodes5 j)))
    = qc 441 10.
  Proof. exact (conj ex_distinct5 (conj ex_left_inverse5 (conj ex_left_inverse9 ex_igral))). Qed.
End C08_rational.

Section C08_real.
  Local Open Scope R_scope.

  (* (b - a) c_0 / sqrt 2 with c_0 = ct_0 / sqrt(1/2) is (b - a) ct_0 *)
  Theorem C08_igral_prefactor_real : forall a b ct0 : R,
    igral_code a b (ct0 / sigma 0) = (b - a) * ct0.
  Proof. exact igral_unnormalised. Qed.

  (* ((b - a) ||c_old - c_new||_2)^2 in the orthonormal basis is err_sq *)
  Theorem C08_err_real_sq : forall (a b : R) n (ct_old ct_new : nat -> R),
    let e := err_code a b n (fun k => ct_old k / sigma k) (fun k => ct_new k / sigma k) in
    e * e = (b - a) * (b - a)
            * sumR n (fun k => (ct_old k - ct_new k) * (ct_old k - ct_new k) / (INR k + / 2)).
  Proof. exact err_unnormalised_sq. Qed.

  (* calc_err as the code computes it (with the square root): 0 when the padded
     coefficient vectors agree; then done() holds as soon as it is evaluated *)
  Theorem C08_err_zero_when_coeffs_agree_real :
    forall (a b : R) n (c_old c_new : nat -> R) igral tol other,
    (forall k, (k < n)%nat -> c_old k = c_new k) ->
    err_code a b n c_old c_new = 0 /\ done_code (err_code a b n c_old c_new) igral tol other.
  Proof.
    intros a b n c_old c_new igral tol other H.
    exact (conj (err_code_zero a b n c_old c_new H)
                (done_code_when_coeffs_agree a b n c_old c_new igral tol other H)).
  Qed.
End C08_real.

Print Assumptions C08_igral_exact_poly.
Print Assumptions C08_igral_exact_poly_distinct_nodes.
Print Assumptions C08_poly_estimate_exact_and_done.
Print Assumptions C08_split_coeffs_exact_poly.
Print Assumptions C08_err_real_sq.
