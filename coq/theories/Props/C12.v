(* Property C12 -- Rescaling inputs or outputs does not change which points
   are chosen (Learner1D part; the LearnerND part is refuted on the real code
   by the twin run of the check, finding F9).

   Statements only; proofs in Proofs/L1DScaleProofs.v (generic number
   structure) and Proofs/L1DScaleInst.v (rationals with +-infinity).

   FULL STATEMENT (the goal): for every history h,
       run P' init' (scale_hist h) = scale_state (run P init h),
   every ask returns sigma-scaled points with identical improvements, loss()
   identical.  PROVED below for every history whose [tell_many] operations
   take the incremental path ([legal]: also says that the learnt function
   returns either always scalars or always vectors); the batch path of
   tell_many is not covered by the proof (hence [_partial]) -- it is covered
   by the twin run on the real class and by the in-Coq twin run of the float
   model (Run/L1DScaleRun.v) on every generated history. *)
From Coq Require Import QArith Qcanon.
From AV Require Import Base.Prelude Model.L1D Proofs.L1DScaleProofs Proofs.L1DScaleInst.

(* the simulation theorem, generic in the number structure *)
Theorem C12_l1d_equivariant_partial :
  forall (num : Type) (add sub mul div : num -> num -> num) (ltb eqb : num -> num -> bool)
         (zero one inf neg_inf : num) (is_nan is_inf : num -> bool) (round12 : num -> num)
         (of_nat : nat -> num) (L : list (option num) -> list (option (Y num)) -> num)
         (sx_ sy_ : num -> num) (P : params num),
    ScaleLaws add sub mul div ltb eqb zero inf neg_inf is_nan sx_ sy_ ->
    OrdLaws ltb eqb ->
    LossFlat sub div ltb eqb zero one is_nan L sy_ ->
    forall (vec : bool) (h : list (op num)),
      legal add sub mul div ltb eqb zero one inf neg_inf is_nan is_inf round12 of_nat L P vec
            (init sub zero inf neg_inf P) h ->
      run add sub mul div ltb eqb zero one inf neg_inf is_nan is_inf round12 of_nat L (sc_P sx_ P)
          (init sub zero inf neg_inf (sc_P sx_ P)) (map (sc_op sx_ sy_) h)
      = sc_st sx_ sy_ (run add sub mul div ltb eqb zero one inf neg_inf is_nan is_inf round12 of_nat L P
                           (init sub zero inf neg_inf P) h)
      /\ trace add sub mul div ltb eqb zero one inf neg_inf is_nan is_inf round12 of_nat L (sc_P sx_ P)
               (init sub zero inf neg_inf (sc_P sx_ P)) (map (sc_op sx_ sy_) h)
         = map (sc_out sx_)
               (trace add sub mul div ltb eqb zero one inf neg_inf is_nan is_inf round12 of_nat L P
                      (init sub zero inf neg_inf P) h)
      /\ (forall real : bool,
            loss sub div ltb eqb inf is_nan is_inf round12 (sc_P sx_ P)
                 (run add sub mul div ltb eqb zero one inf neg_inf is_nan is_inf round12 of_nat L (sc_P sx_ P)
                      (init sub zero inf neg_inf (sc_P sx_ P)) (map (sc_op sx_ sy_) h)) real
            = loss sub div ltb eqb inf is_nan is_inf round12 P
                   (run add sub mul div ltb eqb zero one inf neg_inf is_nan is_inf round12 of_nat L P
                        (init sub zero inf neg_inf P) h) real).
Proof. exact l1d_scale_equivariant. Qed.

(* the laws are inhabited: rationals with +-infinity, any positive factors *)
Theorem C12_scale_laws_rational : forall kx ky : Qc, (0 < kx)%Qc -> (0 < ky)%Qc ->
  ScaleLaws xadd xsub xmul xdiv xltb xeqb xzero PInf NInf xis_nan (scl kx) (scl ky).
Proof. exact laws. Qed.

Theorem C12_ord_laws_rational : OrdLaws xltb xeqb.
Proof. exact ord_laws. Qed.

(* ... and so is the hypothesis on the loss function, by a loss that depends on the values *)
Theorem C12_loss_hypothesis_inhabited : forall ky : Qc,
  LossFlat xsub xdiv xltb xeqb xzero xone xis_nan sq_default_loss (scl ky).
Proof. exact sq_default_loss_flat. Qed.

(* the theorem closed for that number structure (the mathematical statement) *)
Theorem C12_l1d_equivariant_rational_partial :
  forall kx ky : Qc, (0 < kx)%Qc -> (0 < ky)%Qc ->
  forall (L : list (option xq) -> list (option (Y xq)) -> xq),
    LossFlat xsub xdiv xltb xeqb xzero xone xis_nan L (scl ky) ->
  forall (P : params xq) (vec : bool) (h : list (op xq)),
    legal xadd xsub xmul xdiv xltb xeqb xzero xone PInf NInf xis_nan xis_inf xround12 xof_nat L P vec
          (init xsub xzero PInf NInf P) h ->
    let P' := sc_P (scl kx) P in
    let h' := map (sc_op (scl kx) (scl ky)) h in
    run xadd xsub xmul xdiv xltb xeqb xzero xone PInf NInf xis_nan xis_inf xround12 xof_nat L P'
        (init xsub xzero PInf NInf P') h'
    = sc_st (scl kx) (scl ky)
            (run xadd xsub xmul xdiv xltb xeqb xzero xone PInf NInf xis_nan xis_inf xround12 xof_nat L P
                 (init xsub xzero PInf NInf P) h)
    /\ trace xadd xsub xmul xdiv xltb xeqb xzero xone PInf NInf xis_nan xis_inf xround12 xof_nat L P'
             (init xsub xzero PInf NInf P') h'
       = map (sc_out (scl kx))
             (trace xadd xsub xmul xdiv xltb xeqb xzero xone PInf NInf xis_nan xis_inf xround12 xof_nat L P
                    (init xsub xzero PInf NInf P) h)
    /\ (forall real : bool,
          loss xsub xdiv xltb xeqb PInf xis_nan xis_inf xround12 P'
               (run xadd xsub xmul xdiv xltb xeqb xzero xone PInf NInf xis_nan xis_inf xround12 xof_nat L P'
                    (init xsub xzero PInf NInf P') h') real
          = loss xsub xdiv xltb xeqb PInf xis_nan xis_inf xround12 P
                 (run xadd xsub xmul xdiv xltb xeqb xzero xone PInf NInf xis_nan xis_inf xround12 xof_nat L P
                      (init xsub xzero PInf NInf P) h) real).
Proof. exact l1d_scale_equivariant_rational. Qed.

(* the hypotheses are satisfiable by a non-trivial history *)
Example C12_example_legal :
  legal xadd xsub xmul xdiv xltb xeqb xzero xone PInf NInf xis_nan xis_inf xround12 xof_nat
        sq_default_loss (mkparams (Fin 0%Qc) (Fin 1%Qc) (Fin 0%Qc) 0 (Fin (Q2Qc 2))) false
        (init xsub xzero PInf NInf (mkparams (Fin 0%Qc) (Fin 1%Qc) (Fin 0%Qc) 0 (Fin (Q2Qc 2))))
        [Tell (Fin 0%Qc) (YS (Fin 0%Qc)); Tell (Fin 1%Qc) (YS (Fin 1%Qc)); Ask 1 true].
Proof. exact l1d_scale_example. Qed.

Print Assumptions C12_l1d_equivariant_partial.
Print Assumptions C12_scale_laws_rational.
Print Assumptions C12_ord_laws_rational.
Print Assumptions C12_loss_hypothesis_inhabited.
Print Assumptions C12_l1d_equivariant_rational_partial.
