(* Property C12 -- Rescaling inputs or outputs does not change which points
   are chosen (Learner1D part; the LearnerND part is refuted on the real code
   by the twin run of the check, finding F9).

   Statements only; proofs in Proofs/L1DScaleProofs.v (generic number
   structure) and Proofs/L1DScaleInst.v (rationals with +-infinity).

   STATEMENT: for every history h in which the learnt function returns
   either always scalars or always vectors ([shaped]),
       run P' init' (scale_hist h) = scale_state (run P init h),
   every ask returns sigma-scaled points with identical improvements, loss()
   identical ([C12_l1d_equivariant], for number structures without NaN; closed
   for the rationals with +-infinity in [C12_l1d_equivariant_rational]).
   [C12_l1d_equivariant_nan_partial] is the NaN-tolerant variant (nanmin /
   nanmax of vector outputs handled), proved for the histories whose
   [tell_many] take the incremental path ([legal]); with NaN values the batch
   path of tell_many is covered only by the twin runs of the check.
   One lemma per operation: C12_tell, C12_tell_pending, C12_remove_unfinished,
   C12_ask, C12_tell_many_batch, C12_loss.
   Hypotheses (all explicit): ScaleLaws, OrdLaws, LossFlat (the loss function
   ignores a common rescaling of values whose range is zero -- the only case
   in which the learner passes un-normalised values, [_scale[1] or 1]). *)
From Coq Require Import QArith Qcanon.
From AV Require Import Base.Prelude Model.L1D Proofs.L1DScaleProofs Proofs.L1DScaleInst.

(* the simulation theorem, generic in the number structure *)
Theorem C12_l1d_equivariant_nan_partial :
  forall (num : Type) (add sub mul div : num -> num -> num) (ltb eqb : num -> num -> bool)
         (zero one inf neg_inf : num) (is_nan is_inf : num -> bool) (round12 : num -> num)
         (of_nat : nat -> num) (L : list (option num) -> list (option (Y num)) -> num)
         (sx_ sy_ : num -> num) (P : params num),
    ScaleLaws add sub mul div ltb eqb zero inf neg_inf is_nan sx_ sy_ ->
    OrdLaws ltb eqb ->
    LossFlat sub div ltb eqb zero one is_nan L sy_ ->
    forall (vec : bool) (h : list (op num)),
      legal add sub mul div ltb eqb zero one inf neg_inf is_nan is_inf round12 of_nat L P vec
            (init sub zero inf neg_inf P) h ->
      run add sub mul div ltb eqb zero one inf neg_inf is_nan is_inf round12 of_nat L (sc_P sx_ P)
          (init sub zero inf neg_inf (sc_P sx_ P)) (map (sc_op sx_ sy_) h)
      = sc_st sx_ sy_ (run add sub mul div ltb eqb zero one inf neg_inf is_nan is_inf round12 of_nat L P
                           (init sub zero inf neg_inf P) h)
      /\ trace add sub mul div ltb eqb zero one inf neg_inf is_nan is_inf round12 of_nat L (sc_P sx_ P)
               (init sub zero inf neg_inf (sc_P sx_ P)) (map (sc_op sx_ sy_) h)
         = map (sc_out sx_)
               (trace add sub mul div ltb eqb zero one inf neg_inf is_nan is_inf round12 of_nat L P
                      (init sub zero inf neg_inf P) h)
      /\ (forall real : bool,
            loss sub div ltb eqb inf is_nan is_inf round12 (sc_P sx_ P)
                 (run add sub mul div ltb eqb zero one inf neg_inf is_nan is_inf round12 of_nat L (sc_P sx_ P)
                      (init sub zero inf neg_inf (sc_P sx_ P)) (map (sc_op sx_ sy_) h)) real
            = loss sub div ltb eqb inf is_nan is_inf round12 P
                   (run add sub mul div ltb eqb zero one inf neg_inf is_nan is_inf round12 of_nat L P
                        (init sub zero inf neg_inf P) h) real).
Proof. exact l1d_scale_equivariant. Qed.

(* the full statement (number structures without NaN) *)
Theorem C12_l1d_equivariant :
  forall (num : Type) (add sub mul div : num -> num -> num) (ltb eqb : num -> num -> bool)
         (zero one inf neg_inf : num) (is_nan is_inf : num -> bool) (round12 : num -> num)
         (of_nat : nat -> num) (L : list (option num) -> list (option (Y num)) -> num)
         (sx_ sy_ : num -> num) (P : params num),
    ScaleLaws add sub mul div ltb eqb zero inf neg_inf is_nan sx_ sy_ ->
    OrdLaws ltb eqb ->
    LossFlat sub div ltb eqb zero one is_nan L sy_ ->
    forall vec : bool,
    (forall a : num, is_nan a = false) ->
    forall h : list (op num),
      shaped vec h ->
      run add sub mul div ltb eqb zero one inf neg_inf is_nan is_inf round12 of_nat L (sc_P sx_ P)
          (init sub zero inf neg_inf (sc_P sx_ P)) (map (sc_op sx_ sy_) h)
      = sc_st sx_ sy_ (run add sub mul div ltb eqb zero one inf neg_inf is_nan is_inf round12 of_nat L P
                           (init sub zero inf neg_inf P) h)
      /\ trace add sub mul div ltb eqb zero one inf neg_inf is_nan is_inf round12 of_nat L (sc_P sx_ P)
               (init sub zero inf neg_inf (sc_P sx_ P)) (map (sc_op sx_ sy_) h)
         = map (sc_out sx_)
               (trace add sub mul div ltb eqb zero one inf neg_inf is_nan is_inf round12 of_nat L P
                      (init sub zero inf neg_inf P) h)
      /\ (forall real : bool,
            loss sub div ltb eqb inf is_nan is_inf round12 (sc_P sx_ P)
                 (run add sub mul div ltb eqb zero one inf neg_inf is_nan is_inf round12 of_nat L (sc_P sx_ P)
                      (init sub zero inf neg_inf (sc_P sx_ P)) (map (sc_op sx_ sy_) h)) real
            = loss sub div ltb eqb inf is_nan is_inf round12 P
                   (run add sub mul div ltb eqb zero one inf neg_inf is_nan is_inf round12 of_nat L P
                        (init sub zero inf neg_inf P) h) real).
Proof. exact l1d_scale_equivariant_full. Qed.

(* one lemma per operation (Inv: the "values absorbed by their bounding box" invariant) *)
Theorem C12_tell :
  forall (num : Type) (add sub mul div : num -> num -> num) (ltb eqb : num -> num -> bool) (zero one inf neg_inf : num)
         (is_nan is_inf : num -> bool) (round12 : num -> num) (L : list (option num) -> list (option (Y num)) -> num)
         (sx_ sy_ : num -> num) (P : params num),
    ScaleLaws add sub mul div ltb eqb zero inf neg_inf is_nan sx_ sy_ -> OrdLaws ltb eqb ->
    LossFlat sub div ltb eqb zero one is_nan L sy_ ->
    forall (vec : bool) (s : st num) (x : num) (y : Y num),
      Inv sub ltb eqb zero is_nan vec s -> is_vec y = vec ->
      tell sub mul div ltb eqb zero one inf neg_inf is_nan is_inf round12 L (sc_P sx_ P) (sc_st sx_ sy_ s) (sx_ x) (ymap sy_ y)
      = sc_st sx_ sy_ (tell sub mul div ltb eqb zero one inf neg_inf is_nan is_inf round12 L P s x y)
      /\ Inv sub ltb eqb zero is_nan vec (tell sub mul div ltb eqb zero one inf neg_inf is_nan is_inf round12 L P s x y).
Proof. exact tell_sc. Qed.

Theorem C12_tell_pending :
  forall (num : Type) (add sub mul div : num -> num -> num) (ltb eqb : num -> num -> bool) (zero one inf neg_inf : num)
         (is_nan : num -> bool) (L : list (option num) -> list (option (Y num)) -> num) (sx_ sy_ : num -> num) (P : params num),
    ScaleLaws add sub mul div ltb eqb zero inf neg_inf is_nan sx_ sy_ ->
    LossFlat sub div ltb eqb zero one is_nan L sy_ ->
    forall (vec : bool) (s : st num) (x : num),
      Inv sub ltb eqb zero is_nan vec s ->
      tell_pending sub mul div ltb eqb zero one inf L (sc_P sx_ P) (sc_st sx_ sy_ s) (sx_ x)
      = sc_st sx_ sy_ (tell_pending sub mul div ltb eqb zero one inf L P s x)
      /\ Inv sub ltb eqb zero is_nan vec (tell_pending sub mul div ltb eqb zero one inf L P s x).
Proof. exact tell_pending_sc. Qed.

Theorem C12_remove_unfinished :
  forall (num : Type) (sub : num -> num -> num) (ltb eqb : num -> num -> bool) (zero : num) (is_nan : num -> bool)
         (sx_ sy_ : num -> num) (vec : bool) (s : st num),
    remove_unfinished (sc_st sx_ sy_ s) = sc_st sx_ sy_ (remove_unfinished s)
    /\ (Inv sub ltb eqb zero is_nan vec s -> Inv sub ltb eqb zero is_nan vec (remove_unfinished s)).
Proof. exact remove_unfinished_sc. Qed.

Theorem C12_ask :
  forall (num : Type) (add sub mul div : num -> num -> num) (ltb eqb : num -> num -> bool) (zero one inf neg_inf : num)
         (is_nan is_inf : num -> bool) (round12 : num -> num) (of_nat : nat -> num)
         (L : list (option num) -> list (option (Y num)) -> num) (sx_ sy_ : num -> num) (P : params num),
    ScaleLaws add sub mul div ltb eqb zero inf neg_inf is_nan sx_ sy_ ->
    LossFlat sub div ltb eqb zero one is_nan L sy_ ->
    forall (vec : bool) (s : st num) (n : nat) (c : bool),
      Inv sub ltb eqb zero is_nan vec s ->
      ask add sub mul div ltb eqb zero one inf is_nan is_inf round12 of_nat L (sc_P sx_ P) (sc_st sx_ sy_ s) n c
      = (sc_st sx_ sy_ (fst (ask add sub mul div ltb eqb zero one inf is_nan is_inf round12 of_nat L P s n c)),
         sc_out sx_ (snd (ask add sub mul div ltb eqb zero one inf is_nan is_inf round12 of_nat L P s n c)))
      /\ Inv sub ltb eqb zero is_nan vec (fst (ask add sub mul div ltb eqb zero one inf is_nan is_inf round12 of_nat L P s n c)).
Proof. exact ask_sc. Qed.

Theorem C12_loss :
  forall (num : Type) (add sub mul div : num -> num -> num) (ltb eqb : num -> num -> bool) (zero inf neg_inf : num)
         (is_nan is_inf : num -> bool) (round12 sx_ sy_ : num -> num) (P : params num),
    ScaleLaws add sub mul div ltb eqb zero inf neg_inf is_nan sx_ sy_ ->
    forall (s : st num) (real : bool),
      loss sub div ltb eqb inf is_nan is_inf round12 (sc_P sx_ P) (sc_st sx_ sy_ s) real
      = loss sub div ltb eqb inf is_nan is_inf round12 P s real.
Proof. exact loss_sc. Qed.

(* the laws are inhabited: rationals with +-infinity, any positive factors *)
Theorem C12_scale_laws_rational : forall kx ky : Qc, (0 < kx)%Qc -> (0 < ky)%Qc ->
  ScaleLaws xadd xsub xmul xdiv xltb xeqb xzero PInf NInf xis_nan (scl kx) (scl ky).
Proof. exact laws. Qed.

Theorem C12_ord_laws_rational : OrdLaws xltb xeqb.
Proof. exact ord_laws. Qed.

(* ... and so is the hypothesis on the loss function, by a loss that depends on the values *)
Theorem C12_loss_hypothesis_inhabited : forall ky : Qc,
  LossFlat xsub xdiv xltb xeqb xzero xone xis_nan sq_default_loss (scl ky).
Proof. exact sq_default_loss_flat. Qed.

(* the theorem closed for that number structure (the mathematical statement), all histories *)
Theorem C12_l1d_equivariant_rational :
  forall kx ky : Qc, (0 < kx)%Qc -> (0 < ky)%Qc ->
  forall (L : list (option xq) -> list (option (Y xq)) -> xq),
    LossFlat xsub xdiv xltb xeqb xzero xone xis_nan L (scl ky) ->
  forall (P : params xq) (vec : bool) (h : list (op xq)),
    shaped vec h ->
    let P' := sc_P (scl kx) P in
    let h' := map (sc_op (scl kx) (scl ky)) h in
    run xadd xsub xmul xdiv xltb xeqb xzero xone PInf NInf xis_nan xis_inf xround12 xof_nat L P'
        (init xsub xzero PInf NInf P') h'
    = sc_st (scl kx) (scl ky)
            (run xadd xsub xmul xdiv xltb xeqb xzero xone PInf NInf xis_nan xis_inf xround12 xof_nat L P
                 (init xsub xzero PInf NInf P) h)
    /\ trace xadd xsub xmul xdiv xltb xeqb xzero xone PInf NInf xis_nan xis_inf xround12 xof_nat L P'
             (init xsub xzero PInf NInf P') h'
       = map (sc_out (scl kx))
             (trace xadd xsub xmul xdiv xltb xeqb xzero xone PInf NInf xis_nan xis_inf xround12 xof_nat L P
                    (init xsub xzero PInf NInf P) h)
    /\ (forall real : bool,
          loss xsub xdiv xltb xeqb PInf xis_nan xis_inf xround12 P'
               (run xadd xsub xmul xdiv xltb xeqb xzero xone PInf NInf xis_nan xis_inf xround12 xof_nat L P'
                    (init xsub xzero PInf NInf P') h') real
          = loss xsub xdiv xltb xeqb PInf xis_nan xis_inf xround12 P
                 (run xadd xsub xmul xdiv xltb xeqb xzero xone PInf NInf xis_nan xis_inf xround12 xof_nat L P
                      (init xsub xzero PInf NInf P) h) real).
Proof. exact l1d_scale_equivariant_rational_full. Qed.

(* NaN-tolerant variant, closed *)
Theorem C12_l1d_equivariant_rational_nan_partial :
  forall kx ky : Qc, (0 < kx)%Qc -> (0 < ky)%Qc ->
  forall (L : list (option xq) -> list (option (Y xq)) -> xq),
    LossFlat xsub xdiv xltb xeqb xzero xone xis_nan L (scl ky) ->
  forall (P : params xq) (vec : bool) (h : list (op xq)),
    legal xadd xsub xmul xdiv xltb xeqb xzero xone PInf NInf xis_nan xis_inf xround12 xof_nat L P vec
          (init xsub xzero PInf NInf P) h ->
    let P' := sc_P (scl kx) P in
    let h' := map (sc_op (scl kx) (scl ky)) h in
    run xadd xsub xmul xdiv xltb xeqb xzero xone PInf NInf xis_nan xis_inf xround12 xof_nat L P'
        (init xsub xzero PInf NInf P') h'
    = sc_st (scl kx) (scl ky)
            (run xadd xsub xmul xdiv xltb xeqb xzero xone PInf NInf xis_nan xis_inf xround12 xof_nat L P
                 (init xsub xzero PInf NInf P) h)
    /\ trace xadd xsub xmul xdiv xltb xeqb xzero xone PInf NInf xis_nan xis_inf xround12 xof_nat L P'
             (init xsub xzero PInf NInf P') h'
       = map (sc_out (scl kx))
             (trace xadd xsub xmul xdiv xltb xeqb xzero xone PInf NInf xis_nan xis_inf xround12 xof_nat L P
                    (init xsub xzero PInf NInf P) h)
    /\ (forall real : bool,
          loss xsub xdiv xltb xeqb PInf xis_nan xis_inf xround12 P'
               (run xadd xsub xmul xdiv xltb xeqb xzero xone PInf NInf xis_nan xis_inf xround12 xof_nat L P'
                    (init xsub xzero PInf NInf P') h') real
          = loss xsub xdiv xltb xeqb PInf xis_nan xis_inf xround12 P
                 (run xadd xsub xmul xdiv xltb xeqb xzero xone PInf NInf xis_nan xis_inf xround12 xof_nat L P
                      (init xsub xzero PInf NInf P) h) real).
Proof. exact l1d_scale_equivariant_rational. Qed.

(* the hypotheses are satisfiable by a non-trivial history *)
Example C12_example_legal :
  legal xadd xsub xmul xdiv xltb xeqb xzero xone PInf NInf xis_nan xis_inf xround12 xof_nat
        sq_default_loss (mkparams (Fin 0%Qc) (Fin 1%Qc) (Fin 0%Qc) 0 (Fin (Q2Qc 2))) false
        (init xsub xzero PInf NInf (mkparams (Fin 0%Qc) (Fin 1%Qc) (Fin 0%Qc) 0 (Fin (Q2Qc 2))))
        [Tell (Fin 0%Qc) (YS (Fin 0%Qc)); Tell (Fin 1%Qc) (YS (Fin 1%Qc)); Ask 1 true].
Proof. exact l1d_scale_example. Qed.

Print Assumptions C12_l1d_equivariant.
Print Assumptions C12_l1d_equivariant_nan_partial.
Print Assumptions C12_tell.
Print Assumptions C12_tell_pending.
Print Assumptions C12_remove_unfinished.
Print Assumptions C12_ask.
Print Assumptions C12_loss.
Print Assumptions C12_scale_laws_rational.
Print Assumptions C12_ord_laws_rational.
Print Assumptions C12_loss_hypothesis_inhabited.
Print Assumptions C12_l1d_equivariant_rational.
Print Assumptions C12_l1d_equivariant_rational_nan_partial.
