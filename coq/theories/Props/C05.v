(* Property C05 -- Runners drive a learner through a legal history under every
   completion schedule.  Only statements, each closed by [exact] of a lemma of
   Proofs/RunnerProofs.v, and [Print Assumptions].

   Reading guide.  [reach lrn c l0 evs] is the state of the runner model
   (Model/Runner.v: BaseRunner + BlockingRunner/AsyncRunner main loops) with
   learner [lrn] (abstract), configuration [c] (kind, ntasks, ncores, retries,
   raise_if_retries_exceeded, log) after the ENVIRONMENT events [evs]: goal
   evaluations, the ordered list of completed futures with Ok/Err of every
   wait, cancellation (in a wait, or in the middle of a submission batch), the
   futures that still deliver at shutdown.  Every
   theorem is "forall evs": all completion orders, failure assignments and
   cancellation points.  [tr s] is the trace of observable actions, NEWEST
   FIRST: in [tr s = later ++ e :: earlier], [earlier] happened before [e]. *)
From AV Require Import Base.Prelude Model.Runner Proofs.RunnerProofs.

Section C05.
  Variables P V L : Type.           (* points, values, learner state: abstract *)
  Variable lrn : learner P V L.
  Variable c : cfg.

  (* Every learner.tell(x, y) is preceded by a learner.ask that returned x
     (under the point id pid of the completed future), by the submission of
     exactly x under that pid and by the completion of that very future with
     Ok y; the point (id) was not told before and is not told again. *)
  Theorem C05_only_handed_out_once : forall l0 evs later pid x y earlier,
    tr (reach lrn c l0 evs) = later ++ TTell pid x y :: earlier ->
    (exists n ret, In (TAsk n ret) earlier /\ In (pid, x) ret) /\
    (exists fid, In (TSubmit fid pid x) earlier /\ In (TDone fid pid (Ok y)) earlier) /\
    (forall x' y', ~ In (TTell pid x' y') earlier) /\
    (forall x' y', ~ In (TTell pid x' y') later).
  Proof. exact (@only_handed_out_once P V L lrn c). Qed.

  (* Never more evaluations in flight than _get_max_tasks() (= ntasks, or the
     executor's core count), provided the learner honours ask(n) -> at most n
     points; and _pending_tasks is exactly the set of evaluations in flight
     (submitted, result not yet consumed). *)
  Theorem C05_at_most_ntasks : forall l0 evs,
    (forall l n, length (fst (l_ask lrn l n)) <= n) ->
    length (pend (reach lrn c l0 evs)) <= get_max_tasks c.
  Proof. exact (@at_most_ntasks P V L lrn c). Qed.

  Theorem C05_pending_is_in_flight : forall l0 evs fid pid,
    aget fid (pend (reach lrn c l0 evs)) = Some pid <->
    (exists x, In (TSubmit fid pid x) (tr (reach lrn c l0 evs))) /\
    ~ (exists q o, In (TDone fid q o) (tr (reach lrn c l0 evs))).
  Proof. exact (@pend_is_inflight P V L lrn c). Qed.

  (* While the goal is unmet the submission step fills all slots: after it
     exactly _get_max_tasks() evaluations are in flight whenever the learner
     returned as many points as it was asked for ([gf_asks s]: the learner is
     asked at all, i.e. the retry queue does not fill the free slots;
     [gf_m s]: the number it is asked for). *)
  Theorem C05_keeps_full : forall l0 evs,
    (forall l n, length (fst (l_ask lrn l n)) <= n) ->
    let s := reach lrn c l0 evs in
    ph s = AtGoal ->
    (gf_asks c s = true -> length (fst (l_ask lrn (lst s) (gf_m c s))) = gf_m c s) ->
    length (pend (rstep lrn c s (Goal false))) = get_max_tasks c.
  Proof. exact (@keeps_full P V L lrn c). Qed.

  (* When the run has stopped: the goal was evaluated to True, or cancellation
     happened (inside a wait, [Cancel]; inside _get_futures after j
     submissions of a batch, [SubmitCancel j]; or inside _process_futures
     between two iterations of its loop, e.g. when learner.tell returns,
     [WaitCancel done]), or the stop is the error stop of a point over its retry limit;
     learner.remove_unfinished() was called, exactly once, and after it only
     cancel() calls, consumed results and tells happened (no ask, no
     submission); every evaluation ever submitted was consumed or had cancel()
     called on it. *)
  Theorem C05_clean_stop : forall l0 evs w cl,
    let s := reach lrn c l0 evs in
    ph s = Stopped w cl -> w <> NoWorkers ->
    (w = GoalMet -> In (Goal true) evs) /\
    (w = Cancelled -> In Cancel evs \/ (exists j, In (SubmitCancel j) evs) \/ exists d, In (WaitCancel d) evs) /\
    (forall p, w = Failed p -> c_raise c = true /\ c_retries c < nerr p (tr s)) /\
    (exists t1 t2, tr s = t1 ++ TRemove :: t2 /\
       (forall e, In e t1 -> (exists f, e = TCancel f) \/ (exists f q o, e = TDone f q o) \/ (exists q x y, e = TTell q x y)) /\
       (forall e, In e t2 -> e <> TRemove /\ forall f, e <> TCancel f)) /\
    (forall fid pid x, In (TSubmit fid pid x) (tr s) ->
        (exists o, In (TDone fid pid o) (tr s)) \/ In (TCancel fid) (tr s)).
  Proof. exact (@clean_stop P V L lrn c). Qed.
End C05.

(* non-vacuity: a BlockingRunner with ntasks=2 on a learner that hands out
   0,1,2,..; completions out of order and two at once; the goal is reached
   with one evaluation still in flight, which was already running, so its
   result arrives at shutdown and is told after remove_unfinished. *)
Definition counter : learner nat nat nat :=
  mklearner (fun l n => (seq l n, l + n)) (fun l _ _ => l) (fun l => l).

Example C05_example :
  let c := mkcfg Blocking 2 1 0 true true in
  let evs := [Goal false; Wait [(1, Ok 11)]; Goal false; Wait [(2, Ok 12); (0, Ok 10)];
              Goal false; Wait [(4, Ok 14)]; Goal true; Shutdown [(3, Ok 13)]] in
  let s := reach counter c 0 evs in
  ph s = Stopped GoalMet true /\
  history s = [TAsk 2 [(0, 0); (1, 1)]; TSubmit 0 0 0; TSubmit 1 1 1; TDone 1 1 (Ok 11); TTell 1 1 11;
               TAsk 1 [(2, 2)]; TSubmit 2 2 2; TDone 2 2 (Ok 12); TTell 2 2 12; TDone 0 0 (Ok 10); TTell 0 0 10;
               TAsk 2 [(3, 3); (4, 4)]; TSubmit 3 3 3; TSubmit 4 4 4; TDone 4 4 (Ok 14); TTell 4 4 14;
               TRemove; TCancel 3; TDone 3 3 (Ok 13); TTell 3 3 13] /\
  pend s = [].
Proof. vm_compute. repeat split. Qed.

(* an interrupt inside the second executor.submit of the first batch (ntasks=3):
   one evaluation was started; it is cancelled, the learner is told to discard *)
Example C05_example_interrupt_in_submit :
  let c := mkcfg Blocking 3 1 0 true false in
  let s := reach counter c 0 [SubmitCancel 1; Shutdown []] in
  ph s = Stopped Cancelled true /\
  history s = [TAsk 3 [(0, 0); (1, 1); (2, 2)]; TSubmit 0 0 0; TRemove; TCancel 0] /\
  pend s = [(0, 0)].
Proof. vm_compute. repeat split. Qed.

(* an interrupt inside _process_futures (ntasks=2): the wait returned both
   evaluations, the interrupt arrives when learner.tell of the first returns.
   The second future is done but unprocessed: it is still registered, cancel()
   has no effect on it, its result is told after remove_unfinished -- and the
   first point is NOT told again *)
Example C05_example_interrupt_after_tell :
  let c := mkcfg Blocking 2 1 0 true true in
  let s := reach counter c 0 [Goal false; WaitCancel [(1, Ok 11)]; Shutdown [(0, Ok 10)]] in
  ph s = Stopped Cancelled true /\
  history s = [TAsk 2 [(0, 0); (1, 1)]; TSubmit 0 0 0; TSubmit 1 1 1; TDone 1 1 (Ok 11); TTell 1 1 11;
               TRemove; TCancel 0; TDone 0 0 (Ok 10); TTell 0 0 10] /\
  pend s = [].
Proof. vm_compute. repeat split. Qed.

Print Assumptions C05_only_handed_out_once.
Print Assumptions C05_at_most_ntasks.
Print Assumptions C05_pending_is_in_flight.
Print Assumptions C05_keeps_full.
Print Assumptions C05_clean_stop.
