(* GENERATED on every check by harness/avh/trace.py from the working tree of
   $ADAPTIVE_REPO (adaptive/learner/*.py) by executing the real function bodies
   on symbolic operands.  Do not edit. *)
From Coq Require Import Reals.
From AV Require Import Model.PrimsBase.
Local Open Scope R_scope.

(* triangulation.fast_norm; 1 path(s) *)
Definition fast_norm2 (v0 v1 : R) : R :=
  (sqrt ((v0 * v0) + (v1 * v1))).

(* triangulation.fast_norm; 1 path(s) *)
Definition fast_norm3 (v0 v1 v2 : R) : R :=
  (sqrt (((v0 * v0) + (v1 * v1)) + (v2 * v2))).

(* triangulation.fast_norm; 1 path(s) *)
Definition fast_norm4 (v0 v1 v2 v3 : R) : R :=
  (sqrt ((((v0 * v0) + (v1 * v1)) + (v2 * v2)) + (v3 * v3))).

(* triangulation.fast_det; 1 path(s) *)
Definition fast_det2 (m0_0 m0_1 m1_0 m1_1 : R) : R :=
  ((m0_0 * m1_1) - (m1_0 * m0_1)).

(* triangulation.fast_det; 1 path(s) *)
Definition fast_det3 (m0_0 m0_1 m0_2 m1_0 m1_1 m1_2 m2_0 m2_1 m2_2 : R) : R :=
  (((m0_0 * ((m1_1 * m2_2) - (m1_2 * m2_1))) - (m0_1 * ((m1_0 * m2_2) - (m1_2 * m2_0)))) + (m0_2 * ((m1_0 * m2_1) - (m1_1 * m2_0)))).

(* triangulation.fast_2d_point_in_simplex; 4 path(s) *)
Definition fast_2d_point_in_simplex (px py p0_0 p0_1 p1_0 p1_1 p2_0 p2_1 eps : R) : bool :=
  let t1 := (1 / (2 * ((1 / 2) * (((((- p1_1) * p2_0) + (p0_1 * (p2_0 - p1_0))) + (p1_0 * p2_1)) + (p0_0 * (p1_1 - p2_1)))))) in
  let t2 := (t1 * ((((p0_1 * p2_0) + ((p2_1 - p0_1) * px)) - (p0_0 * p2_1)) + ((p0_0 - p2_0) * py))) in
  let t3 := (- eps) in
  let t4 := (1 + eps) in
  let t5 := (t1 * ((((p0_0 * p1_1) + ((p0_1 - p1_1) * px)) - (p0_1 * p1_0)) + ((p1_0 - p0_0) * py))) in
  if (Rltb t2 t3)
  then
    false
  else
    if (Rltb t4 t2)
    then
      false
    else
      if (Rleb t3 t5)
      then
        (Rleb (t2 + t5) t4)
      else
        false.

(* triangulation.point_in_simplex; 4 path(s) *)
Definition point_in_simplex2 (q0 q1 p0_0 p0_1 p1_0 p1_1 p2_0 p2_1 eps : R) : bool :=
  let t1 := (1 / (2 * ((1 / 2) * (((((- p1_1) * p2_0) + (p0_1 * (p2_0 - p1_0))) + (p1_0 * p2_1)) + (p0_0 * (p1_1 - p2_1)))))) in
  let t2 := (t1 * ((((p0_1 * p2_0) + ((p2_1 - p0_1) * q0)) - (p0_0 * p2_1)) + ((p0_0 - p2_0) * q1))) in
  let t3 := (- eps) in
  let t4 := (1 + eps) in
  let t5 := (t1 * ((((p0_0 * p1_1) + ((p0_1 - p1_1) * q0)) - (p0_1 * p1_0)) + ((p1_0 - p0_0) * q1))) in
  if (Rltb t2 t3)
  then
    false
  else
    if (Rltb t4 t2)
    then
      false
    else
      if (Rleb t3 t5)
      then
        (Rleb (t2 + t5) t4)
      else
        false.

(* triangulation.point_in_simplex; 8 path(s) *)
Definition point_in_simplex3 (q0 q1 q2 p0_0 p0_1 p0_2 p1_0 p1_1 p1_2 p2_0 p2_1 p2_2 p3_0 p3_1 p3_2 eps : R) : bool :=
  let t1 := (- eps) in
  let t2 := (q0 - p0_0) in
  let t3 := (p2_1 - p0_1) in
  let t4 := (p3_2 - p0_2) in
  let t5 := (p3_1 - p0_1) in
  let t6 := (p2_2 - p0_2) in
  let t7 := ((t3 * t4) - (t5 * t6)) in
  let t8 := (p2_0 - p0_0) in
  let t9 := (q1 - p0_1) in
  let t10 := (q2 - p0_2) in
  let t11 := ((t9 * t4) - (t5 * t10)) in
  let t12 := (p3_0 - p0_0) in
  let t13 := (t9 * t6) in
  let t14 := (t3 * t10) in
  let t15 := (p1_0 - p0_0) in
  let t16 := (p1_1 - p0_1) in
  let t17 := (p1_2 - p0_2) in
  let t18 := ((t16 * t4) - (t5 * t17)) in
  let t19 := ((t16 * t6) - (t3 * t17)) in
  let t20 := (((t15 * t7) - (t8 * t18)) + (t12 * t19)) in
  let t21 := ((((t2 * t7) - (t8 * t11)) + (t12 * (t13 - t14))) / t20) in
  let t22 := ((t16 * t10) - (t9 * t17)) in
  let t23 := ((((t15 * t11) - (t2 * t18)) + (t12 * t22)) / t20) in
  let t24 := ((((t15 * (t14 - t13)) - (t8 * t22)) + (t2 * t19)) / t20) in
  if (Rltb t1 t21)
  then
    if (Rltb t1 t23)
    then
      if (Rltb t1 t24)
      then
        (Rltb ((t21 + t23) + t24) (1 + eps))
      else
        false
    else
      if (Rltb t1 t24)
      then
        false
      else
        false
  else
    if (Rltb t1 t23)
    then
      if (Rltb t1 t24)
      then
        false
      else
        false
    else
      if (Rltb t1 t24)
      then
        false
      else
        false.

(* triangulation.fast_2d_circumcircle; 1 path(s) *)
Definition fast_2d_circumcircle (p0_0 p0_1 p1_0 p1_1 p2_0 p2_1 : R) : ((R * R) * R) :=
  let t1 := (p1_0 - p0_0) in
  let t2 := (p1_1 - p0_1) in
  let t3 := ((t1 * t1) + (t2 * t2)) in
  let t4 := (p2_1 - p0_1) in
  let t5 := (p2_0 - p0_0) in
  let t6 := ((t5 * t5) + (t4 * t4)) in
  let t7 := (2 * ((t1 * t4) - (t5 * t2))) in
  let t8 := (((t3 * t4) - (t6 * t2)) / t7) in
  let t9 := ((((- t3) * t5) + (t6 * t1)) / t7) in
  (((t8 + p0_0), (t9 + p0_1)), (sqrt ((t8 * t8) + (t9 * t9)))).

(* triangulation.fast_3d_circumcircle; 1 path(s) *)
Definition fast_3d_circumcircle (p0_0 p0_1 p0_2 p1_0 p1_1 p1_2 p2_0 p2_1 p2_2 p3_0 p3_1 p3_2 : R) : ((R * R * R) * R) :=
  let t1 := (p1_0 - p0_0) in
  let t2 := (p1_1 - p0_1) in
  let t3 := (p1_2 - p0_2) in
  let t4 := (((t1 * t1) + (t2 * t2)) + (t3 * t3)) in
  let t5 := (p2_1 - p0_1) in
  let t6 := (p3_2 - p0_2) in
  let t7 := (p2_2 - p0_2) in
  let t8 := (p3_1 - p0_1) in
  let t9 := ((t5 * t6) - (t7 * t8)) in
  let t10 := (p2_0 - p0_0) in
  let t11 := (((t10 * t10) + (t5 * t5)) + (t7 * t7)) in
  let t12 := ((t2 * t6) - (t3 * t8)) in
  let t13 := (p3_0 - p0_0) in
  let t14 := (((t13 * t13) + (t8 * t8)) + (t6 * t6)) in
  let t15 := ((t2 * t7) - (t3 * t5)) in
  let t16 := (2 * (((t1 * t9) - (t10 * t12)) + (t13 * t15))) in
  let t17 := ((((t4 * t9) - (t11 * t12)) + (t14 * t15)) / t16) in
  let t18 := ((- (((t4 * ((t10 * t6) - (t7 * t13))) - (t11 * ((t1 * t6) - (t3 * t13)))) + (t14 * ((t1 * t7) - (t3 * t10))))) / t16) in
  let t19 := ((((t4 * ((t10 * t8) - (t5 * t13))) - (t11 * ((t1 * t8) - (t2 * t13)))) + (t14 * ((t1 * t5) - (t2 * t10)))) / t16) in
  (((t17 + p0_0), (t18 + p0_1), (t19 + p0_2)), (sqrt (((t17 * t17) + (t18 * t18)) + (t19 * t19)))).

(* triangulation.circumsphere; 1 path(s) *)
Definition circumsphere1 (p0_0 p1_0 : R) : (R * R) :=
  let t1 := ((1 / (2 * ((p0_0 * 1) - (1 * p1_0)))) * (((p0_0 * p0_0) * 1) - (1 * (p1_0 * p1_0)))) in
  let t2 := (t1 - p0_0) in
  (t1, (sqrt (t2 * t2))).

(* triangulation.circumsphere; 1 path(s) *)
Definition circumsphere2 (p0_0 p0_1 p1_0 p1_1 p2_0 p2_1 : R) : ((R * R) * R) :=
  let t1 := (p1_0 - p0_0) in
  let t2 := (p1_1 - p0_1) in
  let t3 := ((t1 * t1) + (t2 * t2)) in
  let t4 := (p2_1 - p0_1) in
  let t5 := (p2_0 - p0_0) in
  let t6 := ((t5 * t5) + (t4 * t4)) in
  let t7 := (2 * ((t1 * t4) - (t5 * t2))) in
  let t8 := (((t3 * t4) - (t6 * t2)) / t7) in
  let t9 := ((((- t3) * t5) + (t6 * t1)) / t7) in
  (((t8 + p0_0), (t9 + p0_1)), (sqrt ((t8 * t8) + (t9 * t9)))).

(* triangulation.circumsphere; 1 path(s) *)
Definition circumsphere3 (p0_0 p0_1 p0_2 p1_0 p1_1 p1_2 p2_0 p2_1 p2_2 p3_0 p3_1 p3_2 : R) : ((R * R * R) * R) :=
  let t1 := (p1_0 - p0_0) in
  let t2 := (p1_1 - p0_1) in
  let t3 := (p1_2 - p0_2) in
  let t4 := (((t1 * t1) + (t2 * t2)) + (t3 * t3)) in
  let t5 := (p2_1 - p0_1) in
  let t6 := (p3_2 - p0_2) in
  let t7 := (p2_2 - p0_2) in
  let t8 := (p3_1 - p0_1) in
  let t9 := ((t5 * t6) - (t7 * t8)) in
  let t10 := (p2_0 - p0_0) in
  let t11 := (((t10 * t10) + (t5 * t5)) + (t7 * t7)) in
  let t12 := ((t2 * t6) - (t3 * t8)) in
  let t13 := (p3_0 - p0_0) in
  let t14 := (((t13 * t13) + (t8 * t8)) + (t6 * t6)) in
  let t15 := ((t2 * t7) - (t3 * t5)) in
  let t16 := (2 * (((t1 * t9) - (t10 * t12)) + (t13 * t15))) in
  let t17 := ((((t4 * t9) - (t11 * t12)) + (t14 * t15)) / t16) in
  let t18 := ((- (((t4 * ((t10 * t6) - (t7 * t13))) - (t11 * ((t1 * t6) - (t3 * t13)))) + (t14 * ((t1 * t7) - (t3 * t10))))) / t16) in
  let t19 := ((((t4 * ((t10 * t8) - (t5 * t13))) - (t11 * ((t1 * t8) - (t2 * t13)))) + (t14 * ((t1 * t5) - (t2 * t10)))) / t16) in
  (((t17 + p0_0), (t18 + p0_1), (t19 + p0_2)), (sqrt (((t17 * t17) + (t18 * t18)) + (t19 * t19)))).

(* triangulation.circumsphere; 1 path(s) *)
Definition circumsphere4 (p0_0 p0_1 p0_2 p0_3 p1_0 p1_1 p1_2 p1_3 p2_0 p2_1 p2_2 p2_3 p3_0 p3_1 p3_2 p3_3 p4_0 p4_1 p4_2 p4_3 : R) : ((R * R * R * R) * R) :=
  let t1 := ((p3_3 * 1) - (1 * p4_3)) in
  let t2 := ((p3_2 * 1) - (1 * p4_2)) in
  let t3 := ((p3_2 * p4_3) - (p3_3 * p4_2)) in
  let t4 := (((p2_2 * t1) - (p2_3 * t2)) + (1 * t3)) in
  let t5 := ((p3_1 * 1) - (1 * p4_1)) in
  let t6 := ((p3_1 * p4_3) - (p3_3 * p4_1)) in
  let t7 := (((p2_1 * t1) - (p2_3 * t5)) + (1 * t6)) in
  let t8 := ((p3_1 * p4_2) - (p3_2 * p4_1)) in
  let t9 := (((p2_1 * t2) - (p2_2 * t5)) + (1 * t8)) in
  let t10 := (((p2_1 * t3) - (p2_2 * t6)) + (p2_3 * t8)) in
  let t11 := ((((p1_1 * t4) - (p1_2 * t7)) + (p1_3 * t9)) - (1 * t10)) in
  let t12 := ((p3_0 * 1) - (1 * p4_0)) in
  let t13 := ((p3_0 * p4_3) - (p3_3 * p4_0)) in
  let t14 := (((p2_0 * t1) - (p2_3 * t12)) + (1 * t13)) in
  let t15 := ((p3_0 * p4_2) - (p3_2 * p4_0)) in
  let t16 := (((p2_0 * t2) - (p2_2 * t12)) + (1 * t15)) in
  let t17 := (((p2_0 * t3) - (p2_2 * t13)) + (p2_3 * t15)) in
  let t18 := ((((p1_0 * t4) - (p1_2 * t14)) + (p1_3 * t16)) - (1 * t17)) in
  let t19 := ((p3_0 * p4_1) - (p3_1 * p4_0)) in
  let t20 := (((p2_0 * t5) - (p2_1 * t12)) + (1 * t19)) in
  let t21 := (((p2_0 * t6) - (p2_1 * t13)) + (p2_3 * t19)) in
  let t22 := ((((p1_0 * t7) - (p1_1 * t14)) + (p1_3 * t20)) - (1 * t21)) in
  let t23 := (((p2_0 * t8) - (p2_1 * t15)) + (p2_2 * t19)) in
  let t24 := ((((p1_0 * t9) - (p1_1 * t16)) + (p1_2 * t20)) - (1 * t23)) in
  let t25 := (1 / (2 * (((((p0_0 * t11) - (p0_1 * t18)) + (p0_2 * t22)) - (p0_3 * t24)) + (1 * ((((p1_0 * t10) - (p1_1 * t17)) + (p1_2 * t21)) - (p1_3 * t23)))))) in
  let t26 := ((((p0_0 * p0_0) + (p0_1 * p0_1)) + (p0_2 * p0_2)) + (p0_3 * p0_3)) in
  let t27 := ((((p1_0 * p1_0) + (p1_1 * p1_1)) + (p1_2 * p1_2)) + (p1_3 * p1_3)) in
  let t28 := ((((p2_0 * p2_0) + (p2_1 * p2_1)) + (p2_2 * p2_2)) + (p2_3 * p2_3)) in
  let t29 := ((((p3_0 * p3_0) + (p3_1 * p3_1)) + (p3_2 * p3_2)) + (p3_3 * p3_3)) in
  let t30 := ((((p4_0 * p4_0) + (p4_1 * p4_1)) + (p4_2 * p4_2)) + (p4_3 * p4_3)) in
  let t31 := ((t29 * 1) - (1 * t30)) in
  let t32 := ((t29 * p4_3) - (p3_3 * t30)) in
  let t33 := (((t28 * t1) - (p2_3 * t31)) + (1 * t32)) in
  let t34 := ((t29 * p4_2) - (p3_2 * t30)) in
  let t35 := (((t28 * t2) - (p2_2 * t31)) + (1 * t34)) in
  let t36 := (((t28 * t3) - (p2_2 * t32)) + (p2_3 * t34)) in
  let t37 := ((((t27 * t4) - (p1_2 * t33)) + (p1_3 * t35)) - (1 * t36)) in
  let t38 := ((t29 * p4_1) - (p3_1 * t30)) in
  let t39 := (((t28 * t5) - (p2_1 * t31)) + (1 * t38)) in
  let t40 := (((t28 * t6) - (p2_1 * t32)) + (p2_3 * t38)) in
  let t41 := ((((t27 * t7) - (p1_1 * t33)) + (p1_3 * t39)) - (1 * t40)) in
  let t42 := (((t28 * t8) - (p2_1 * t34)) + (p2_2 * t38)) in
  let t43 := ((((t27 * t9) - (p1_1 * t35)) + (p1_2 * t39)) - (1 * t42)) in
  let t44 := (t25 * (((((t26 * t11) - (p0_1 * t37)) + (p0_2 * t41)) - (p0_3 * t43)) + (1 * ((((t27 * t10) - (p1_1 * t36)) + (p1_2 * t40)) - (p1_3 * t42))))) in
  let t45 := (t25 * (-1)) in
  let t46 := ((t29 * p4_0) - (p3_0 * t30)) in
  let t47 := (((t28 * t12) - (p2_0 * t31)) + (1 * t46)) in
  let t48 := (((t28 * t13) - (p2_0 * t32)) + (p2_3 * t46)) in
  let t49 := ((((t27 * t14) - (p1_0 * t33)) + (p1_3 * t47)) - (1 * t48)) in
  let t50 := (((t28 * t15) - (p2_0 * t34)) + (p2_2 * t46)) in
  let t51 := ((((t27 * t16) - (p1_0 * t35)) + (p1_2 * t47)) - (1 * t50)) in
  let t52 := (t45 * (((((t26 * t18) - (p0_0 * t37)) + (p0_2 * t49)) - (p0_3 * t51)) + (1 * ((((t27 * t17) - (p1_0 * t36)) + (p1_2 * t48)) - (p1_3 * t50))))) in
  let t53 := (t45 * (-1)) in
  let t54 := (((t28 * t19) - (p2_0 * t38)) + (p2_1 * t46)) in
  let t55 := ((((t27 * t20) - (p1_0 * t39)) + (p1_1 * t47)) - (1 * t54)) in
  let t56 := (t53 * (((((t26 * t22) - (p0_0 * t41)) + (p0_1 * t49)) - (p0_3 * t55)) + (1 * ((((t27 * t21) - (p1_0 * t40)) + (p1_1 * t48)) - (p1_3 * t54))))) in
  let t57 := ((t53 * (-1)) * (((((t26 * t24) - (p0_0 * t43)) + (p0_1 * t51)) - (p0_2 * t55)) + (1 * ((((t27 * t23) - (p1_0 * t42)) + (p1_1 * t50)) - (p1_2 * t54))))) in
  let t58 := (t44 - p0_0) in
  let t59 := (t52 - p0_1) in
  let t60 := (t56 - p0_2) in
  let t61 := (t57 - p0_3) in
  ((t44, t52, t56, t57), (sqrt ((((t58 * t58) + (t59 * t59)) + (t60 * t60)) + (t61 * t61)))).

(* triangulation.orientation; 2 path(s) *)
Definition orientation2 (f0_0 f0_1 f1_0 f1_1 o0 o1 : R) : R :=
  let t1 := (((f0_0 - o0) * (f1_1 - o1)) - ((f0_1 - o1) * (f1_0 - o0))) in
  if (Rltb (ln (Rabs t1)) (-50))
  then
    0
  else
    (sgnR t1).

(* triangulation.orientation; 2 path(s) *)
Definition orientation3 (f0_0 f0_1 f0_2 f1_0 f1_1 f1_2 f2_0 f2_1 f2_2 o0 o1 o2 : R) : R :=
  let t1 := (f1_1 - o1) in
  let t2 := (f2_2 - o2) in
  let t3 := (f1_2 - o2) in
  let t4 := (f2_1 - o1) in
  let t5 := (f1_0 - o0) in
  let t6 := (f2_0 - o0) in
  let t7 := ((((f0_0 - o0) * ((t1 * t2) - (t3 * t4))) - ((f0_1 - o1) * ((t5 * t2) - (t3 * t6)))) + ((f0_2 - o2) * ((t5 * t4) - (t1 * t6)))) in
  if (Rltb (ln (Rabs t7)) (-50))
  then
    0
  else
    (sgnR t7).

(* triangulation.simplex_volume_in_embedding -- 3 vertices in the plane (Heron branch); 1 path(s) *)
Definition sve_heron (p0_0 p0_1 p1_0 p1_1 p2_0 p2_1 : R) : R :=
  let t1 := (p0_0 - p1_0) in
  let t2 := (p0_1 - p1_1) in
  let t3 := (sqrt ((t1 * t1) + (t2 * t2))) in
  let t4 := (p0_0 - p2_0) in
  let t5 := (p0_1 - p2_1) in
  let t6 := (sqrt ((t4 * t4) + (t5 * t5))) in
  let t7 := (p1_0 - p2_0) in
  let t8 := (p1_1 - p2_1) in
  let t9 := (sqrt ((t7 * t7) + (t8 * t8))) in
  let t10 := ((1 / 2) * ((t3 + t6) + t9)) in
  (sqrt (((t10 * (t10 - t3)) * (t10 - t6)) * (t10 - t9))).

(* triangulation.simplex_volume_in_embedding -- 2 vertices in R^3 (Cayley-Menger branch); 3 path(s) *)
Definition sve_cm2 (p0_0 p0_1 p0_2 p1_0 p1_1 p1_2 : R) : res :=
  let t1 := (p0_0 - p1_0) in
  let t2 := (p0_1 - p1_1) in
  let t3 := (p0_2 - p1_2) in
  let t4 := (((t1 * t1) + (t2 * t2)) + (t3 * t3)) in
  let t5 := ((((0 * (0 - (t4 * t4))) - (1 * (0 - (t4 * 1)))) + (1 * (1 * t4))) / 2) in
  if (Rltb t5 0)
  then
    if (Rltb ((-2535301200456459) / 2535301200456458802993406410752) t5)
    then
      Val 0
    else
      Err
  else
    Val (sqrt t5).

(* triangulation.simplex_volume_in_embedding -- 3 vertices in R^3 (Cayley-Menger branch); 3 path(s) *)
Definition sve_cm3 (p0_0 p0_1 p0_2 p1_0 p1_1 p1_2 p2_0 p2_1 p2_2 : R) : res :=
  let t1 := (p1_0 - p2_0) in
  let t2 := (p1_1 - p2_1) in
  let t3 := (p1_2 - p2_2) in
  let t4 := (((t1 * t1) + (t2 * t2)) + (t3 * t3)) in
  let t5 := (0 - (t4 * t4)) in
  let t6 := (p0_0 - p1_0) in
  let t7 := (p0_1 - p1_1) in
  let t8 := (p0_2 - p1_2) in
  let t9 := (((t6 * t6) + (t7 * t7)) + (t8 * t8)) in
  let t10 := (p0_0 - p2_0) in
  let t11 := (p0_1 - p2_1) in
  let t12 := (p0_2 - p2_2) in
  let t13 := (((t10 * t10) + (t11 * t11)) + (t12 * t12)) in
  let t14 := ((t9 * 0) - (t4 * t13)) in
  let t15 := ((t9 * t4) - (0 * t13)) in
  let t16 := (0 - (t4 * 1)) in
  let t17 := (1 * t4) in
  let t18 := ((1 * t13) - (t9 * 1)) in
  let t19 := (((((0 * (((0 * t5) - (t9 * t14)) + (t13 * t15))) - (1 * (((1 * t5) - (t9 * t16)) + (t13 * t17)))) + (1 * (((1 * t14) - (0 * t16)) + (t13 * t18)))) - (1 * (((1 * t15) - (0 * t17)) + (t9 * t18)))) / (-16)) in
  if (Rltb t19 0)
  then
    if (Rltb ((-2535301200456459) / 2535301200456458802993406410752) t19)
    then
      Val 0
    else
      Err
  else
    Val (sqrt t19).

(* triangulation.simplex_volume_in_embedding -- 4 vertices in R^3 (Cayley-Menger branch); 3 path(s) *)
Definition sve_cm4 (p0_0 p0_1 p0_2 p1_0 p1_1 p1_2 p2_0 p2_1 p2_2 p3_0 p3_1 p3_2 : R) : res :=
  let t1 := (p2_0 - p3_0) in
  let t2 := (p2_1 - p3_1) in
  let t3 := (p2_2 - p3_2) in
  let t4 := (((t1 * t1) + (t2 * t2)) + (t3 * t3)) in
  let t5 := (0 - (t4 * t4)) in
  let t6 := (p1_0 - p2_0) in
  let t7 := (p1_1 - p2_1) in
  let t8 := (p1_2 - p2_2) in
  let t9 := (((t6 * t6) + (t7 * t7)) + (t8 * t8)) in
  let t10 := (p1_0 - p3_0) in
  let t11 := (p1_1 - p3_1) in
  let t12 := (p1_2 - p3_2) in
  let t13 := (((t10 * t10) + (t11 * t11)) + (t12 * t12)) in
  let t14 := ((t9 * 0) - (t4 * t13)) in
  let t15 := ((t9 * t4) - (0 * t13)) in
  let t16 := (((0 * t5) - (t9 * t14)) + (t13 * t15)) in
  let t17 := (p0_0 - p1_0) in
  let t18 := (p0_1 - p1_1) in
  let t19 := (p0_2 - p1_2) in
  let t20 := (((t17 * t17) + (t18 * t18)) + (t19 * t19)) in
  let t21 := (p0_0 - p2_0) in
  let t22 := (p0_1 - p2_1) in
  let t23 := (p0_2 - p2_2) in
  let t24 := (((t21 * t21) + (t22 * t22)) + (t23 * t23)) in
  let t25 := (p0_0 - p3_0) in
  let t26 := (p0_1 - p3_1) in
  let t27 := (p0_2 - p3_2) in
  let t28 := (((t25 * t25) + (t26 * t26)) + (t27 * t27)) in
  let t29 := ((t24 * 0) - (t4 * t28)) in
  let t30 := ((t24 * t4) - (0 * t28)) in
  let t31 := (((t20 * t5) - (t9 * t29)) + (t13 * t30)) in
  let t32 := ((t24 * t13) - (t9 * t28)) in
  let t33 := (((t20 * t14) - (0 * t29)) + (t13 * t32)) in
  let t34 := (((t20 * t15) - (0 * t30)) + (t9 * t32)) in
  let t35 := (0 - (t4 * 1)) in
  let t36 := (1 * t4) in
  let t37 := (((1 * t5) - (t9 * t35)) + (t13 * t36)) in
  let t38 := ((1 * t13) - (t9 * 1)) in
  let t39 := (((1 * t14) - (0 * t35)) + (t13 * t38)) in
  let t40 := (((1 * t15) - (0 * t36)) + (t9 * t38)) in
  let t41 := ((1 * t28) - (t24 * 1)) in
  let t42 := (((1 * t29) - (t20 * t35)) + (t13 * t41)) in
  let t43 := (((1 * t30) - (t20 * t36)) + (t9 * t41)) in
  let t44 := (((1 * t32) - (t20 * t38)) + (0 * t41)) in
  let t45 := ((((((0 * ((((0 * t16) - (t20 * t31)) + (t24 * t33)) - (t28 * t34))) - (1 * ((((1 * t16) - (t20 * t37)) + (t24 * t39)) - (t28 * t40)))) + (1 * ((((1 * t31) - (0 * t37)) + (t24 * t42)) - (t28 * t43)))) - (1 * ((((1 * t33) - (0 * t39)) + (t20 * t42)) - (t28 * t44)))) + (1 * ((((1 * t34) - (0 * t40)) + (t20 * t43)) - (t24 * t44)))) / 288) in
  if (Rltb t45 0)
  then
    if (Rltb ((-2535301200456459) / 2535301200456458802993406410752) t45)
    then
      Val 0
    else
      Err
  else
    Val (sqrt t45).

(* triangulation.simplex_volume_in_embedding -- 3 vertices in R^4; 3 path(s) *)
Definition sve_cm3_in4 (p0_0 p0_1 p0_2 p0_3 p1_0 p1_1 p1_2 p1_3 p2_0 p2_1 p2_2 p2_3 : R) : res :=
  let t1 := (p1_0 - p2_0) in
  let t2 := (p1_1 - p2_1) in
  let t3 := (p1_2 - p2_2) in
  let t4 := (p1_3 - p2_3) in
  let t5 := ((((t1 * t1) + (t2 * t2)) + (t3 * t3)) + (t4 * t4)) in
  let t6 := (0 - (t5 * t5)) in
  let t7 := (p0_0 - p1_0) in
  let t8 := (p0_1 - p1_1) in
  let t9 := (p0_2 - p1_2) in
  let t10 := (p0_3 - p1_3) in
  let t11 := ((((t7 * t7) + (t8 * t8)) + (t9 * t9)) + (t10 * t10)) in
  let t12 := (p0_0 - p2_0) in
  let t13 := (p0_1 - p2_1) in
  let t14 := (p0_2 - p2_2) in
  let t15 := (p0_3 - p2_3) in
  let t16 := ((((t12 * t12) + (t13 * t13)) + (t14 * t14)) + (t15 * t15)) in
  let t17 := ((t11 * 0) - (t5 * t16)) in
  let t18 := ((t11 * t5) - (0 * t16)) in
  let t19 := (0 - (t5 * 1)) in
  let t20 := (1 * t5) in
  let t21 := ((1 * t16) - (t11 * 1)) in
  let t22 := (((((0 * (((0 * t6) - (t11 * t17)) + (t16 * t18))) - (1 * (((1 * t6) - (t11 * t19)) + (t16 * t20)))) + (1 * (((1 * t17) - (0 * t19)) + (t16 * t21)))) - (1 * (((1 * t18) - (0 * t20)) + (t11 * t21)))) / (-16)) in
  if (Rltb t22 0)
  then
    if (Rltb ((-2535301200456459) / 2535301200456458802993406410752) t22)
    then
      Val 0
    else
      Err
  else
    Val (sqrt t22).

(* triangulation.Triangulation.volume -- float() of the result is the identity on reals; 1 path(s) *)
Definition tri_volume2 (p0_0 p0_1 p1_0 p1_1 p2_0 p2_1 : R) : R :=
  ((Rabs (((p1_0 - p0_0) * (p2_1 - p0_1)) - ((p2_0 - p0_0) * (p1_1 - p0_1)))) / 2).

(* triangulation.Triangulation.volume -- float() of the result is the identity on reals; 1 path(s) *)
Definition tri_volume3 (p0_0 p0_1 p0_2 p1_0 p1_1 p1_2 p2_0 p2_1 p2_2 p3_0 p3_1 p3_2 : R) : R :=
  let t1 := (p2_1 - p0_1) in
  let t2 := (p3_2 - p0_2) in
  let t3 := (p2_2 - p0_2) in
  let t4 := (p3_1 - p0_1) in
  let t5 := (p2_0 - p0_0) in
  let t6 := (p3_0 - p0_0) in
  ((Rabs ((((p1_0 - p0_0) * ((t1 * t2) - (t3 * t4))) - ((p1_1 - p0_1) * ((t5 * t2) - (t3 * t6)))) + ((p1_2 - p0_2) * ((t5 * t4) - (t1 * t6))))) / 6).

(* learnerND.volume; 1 path(s) *)
Definition nd_volume1 (p0_0 p1_0 : R) : R :=
  ((Rabs (p0_0 - p1_0)) / 1).

(* learnerND.volume; 1 path(s) *)
Definition nd_volume2 (p0_0 p0_1 p1_0 p1_1 p2_0 p2_1 : R) : R :=
  ((Rabs (((p0_0 - p2_0) * (p1_1 - p2_1)) - ((p1_0 - p2_0) * (p0_1 - p2_1)))) / 2).

(* learnerND.volume; 1 path(s) *)
Definition nd_volume3 (p0_0 p0_1 p0_2 p1_0 p1_1 p1_2 p2_0 p2_1 p2_2 p3_0 p3_1 p3_2 : R) : R :=
  let t1 := (p1_1 - p3_1) in
  let t2 := (p2_2 - p3_2) in
  let t3 := (p1_2 - p3_2) in
  let t4 := (p2_1 - p3_1) in
  let t5 := (p1_0 - p3_0) in
  let t6 := (p2_0 - p3_0) in
  ((Rabs ((((p0_0 - p3_0) * ((t1 * t2) - (t3 * t4))) - ((p0_1 - p3_1) * ((t5 * t2) - (t3 * t6)))) + ((p0_2 - p3_2) * ((t5 * t4) - (t1 * t6))))) / 6).

(* learnerND.uniform_loss; 1 path(s) *)
Definition nd_uniform_loss2 (p0_0 p0_1 p1_0 p1_1 p2_0 p2_1 y0 y1 y2 scale : R) : R :=
  ((Rabs (((p0_0 - p2_0) * (p1_1 - p2_1)) - ((p1_0 - p2_0) * (p0_1 - p2_1)))) / 2).

(* learnerND.default_loss -- 2-d domain, scalar values; 3 path(s) *)
Definition nd_default_loss2 (p0_0 p0_1 p1_0 p1_1 p2_0 p2_1 y0 y1 y2 scale : R) : res :=
  let t1 := (p1_0 - p2_0) in
  let t2 := (p1_1 - p2_1) in
  let t3 := (y1 - y2) in
  let t4 := (((t1 * t1) + (t2 * t2)) + (t3 * t3)) in
  let t5 := (0 - (t4 * t4)) in
  let t6 := (p0_0 - p1_0) in
  let t7 := (p0_1 - p1_1) in
  let t8 := (y0 - y1) in
  let t9 := (((t6 * t6) + (t7 * t7)) + (t8 * t8)) in
  let t10 := (p0_0 - p2_0) in
  let t11 := (p0_1 - p2_1) in
  let t12 := (y0 - y2) in
  let t13 := (((t10 * t10) + (t11 * t11)) + (t12 * t12)) in
  let t14 := ((t9 * 0) - (t4 * t13)) in
  let t15 := ((t9 * t4) - (0 * t13)) in
  let t16 := (0 - (t4 * 1)) in
  let t17 := (1 * t4) in
  let t18 := ((1 * t13) - (t9 * 1)) in
  let t19 := (((((0 * (((0 * t5) - (t9 * t14)) + (t13 * t15))) - (1 * (((1 * t5) - (t9 * t16)) + (t13 * t17)))) + (1 * (((1 * t14) - (0 * t16)) + (t13 * t18)))) - (1 * (((1 * t15) - (0 * t17)) + (t9 * t18)))) / (-16)) in
  if (Rltb t19 0)
  then
    if (Rltb ((-2535301200456459) / 2535301200456458802993406410752) t19)
    then
      Val 0
    else
      Err
  else
    Val (sqrt t19).

(* learnerND.default_loss -- 2-d domain, 2-component values; 3 path(s) *)
Definition nd_default_loss2v (p0_0 p0_1 p1_0 p1_1 p2_0 p2_1 y0_0 y0_1 y1_0 y1_1 y2_0 y2_1 scale : R) : res :=
  let t1 := (p1_0 - p2_0) in
  let t2 := (p1_1 - p2_1) in
  let t3 := (y1_0 - y2_0) in
  let t4 := (y1_1 - y2_1) in
  let t5 := ((((t1 * t1) + (t2 * t2)) + (t3 * t3)) + (t4 * t4)) in
  let t6 := (0 - (t5 * t5)) in
  let t7 := (p0_0 - p1_0) in
  let t8 := (p0_1 - p1_1) in
  let t9 := (y0_0 - y1_0) in
  let t10 := (y0_1 - y1_1) in
  let t11 := ((((t7 * t7) + (t8 * t8)) + (t9 * t9)) + (t10 * t10)) in
  let t12 := (p0_0 - p2_0) in
  let t13 := (p0_1 - p2_1) in
  let t14 := (y0_0 - y2_0) in
  let t15 := (y0_1 - y2_1) in
  let t16 := ((((t12 * t12) + (t13 * t13)) + (t14 * t14)) + (t15 * t15)) in
  let t17 := ((t11 * 0) - (t5 * t16)) in
  let t18 := ((t11 * t5) - (0 * t16)) in
  let t19 := (0 - (t5 * 1)) in
  let t20 := (1 * t5) in
  let t21 := ((1 * t16) - (t11 * 1)) in
  let t22 := (((((0 * (((0 * t6) - (t11 * t17)) + (t16 * t18))) - (1 * (((1 * t6) - (t11 * t19)) + (t16 * t20)))) + (1 * (((1 * t17) - (0 * t19)) + (t16 * t21)))) - (1 * (((1 * t18) - (0 * t20)) + (t11 * t21)))) / (-16)) in
  if (Rltb t22 0)
  then
    if (Rltb ((-2535301200456459) / 2535301200456458802993406410752) t22)
    then
      Val 0
    else
      Err
  else
    Val (sqrt t22).

(* learnerND.choose_point_in_simplex; 109 path(s) *)
Definition nd_choose_point2 (p0_0 p0_1 p1_0 p1_1 p2_0 p2_1 : R) : (R * R) :=
  let t1 := (p1_1 - p2_1) in
  let t2 := (1 / (2 * ((1 / 2) * (((((- p1_1) * p2_0) + (p0_1 * (p2_0 - p1_0))) + (p1_0 * p2_1)) + (p0_0 * t1))))) in
  let t3 := (p2_1 - p0_1) in
  let t4 := (p1_0 - p0_0) in
  let t5 := (p1_1 - p0_1) in
  let t6 := ((t4 * t4) + (t5 * t5)) in
  let t7 := (p2_0 - p0_0) in
  let t8 := ((t7 * t7) + (t3 * t3)) in
  let t9 := (2 * ((t4 * t3) - (t7 * t5))) in
  let t10 := ((((t6 * t3) - (t8 * t5)) / t9) + p0_0) in
  let t11 := (p0_0 - p2_0) in
  let t12 := (((((- t6) * t7) + (t8 * t4)) / t9) + p0_1) in
  let t13 := (t2 * ((((p0_1 * p2_0) + (t3 * t10)) - (p0_0 * p2_1)) + (t11 * t12))) in
  let t14 := (p0_0 - p1_0) in
  let t15 := (p0_1 - p1_1) in
  let t16 := (sqrt ((t14 * t14) + (t15 * t15))) in
  let t17 := (p0_1 - p2_1) in
  let t18 := (sqrt ((t11 * t11) + (t17 * t17))) in
  let t19 := (p1_0 - p2_0) in
  let t20 := (sqrt ((t19 * t19) + (t1 * t1))) in
  let t21 := ((p2_0 + p2_0) / 2) in
  let t22 := ((p2_1 + p2_1) / 2) in
  let t23 := ((p1_0 + p2_0) / 2) in
  let t24 := ((p1_1 + p2_1) / 2) in
  let t25 := ((p1_0 + p1_0) / 2) in
  let t26 := ((p1_1 + p1_1) / 2) in
  let t27 := ((p0_0 + p2_0) / 2) in
  let t28 := ((p0_1 + p2_1) / 2) in
  let t29 := ((p2_0 + p0_0) / 2) in
  let t30 := ((p2_1 + p0_1) / 2) in
  let t31 := (p0_0 + p1_0) in
  let t32 := (t31 / 2) in
  let t33 := (p0_1 + p1_1) in
  let t34 := (t33 / 2) in
  let t35 := ((p2_0 + p1_0) / 2) in
  let t36 := ((p2_1 + p1_1) / 2) in
  let t37 := ((p1_0 + p0_0) / 2) in
  let t38 := ((p1_1 + p0_1) / 2) in
  let t39 := ((p0_0 + p0_0) / 2) in
  let t40 := ((p0_1 + p0_1) / 2) in
  let t41 := (t2 * ((((p0_0 * p1_1) + (t15 * t10)) - (p0_1 * p1_0)) + (t4 * t12))) in
  if (Rltb t13 ((-3022314549036573) / 302231454903657293676544))
  then
    if (Rltb 0 t16)
    then
      if (Rltb t16 t18)
      then
        if (Rltb t18 0)
        then
          if (Rltb 0 t20)
          then
            if (Rltb t20 t18)
            then
              (t21, t22)
            else
              (t23, t24)
          else
            (t25, t26)
        else
          if (Rltb t18 t20)
          then
            if (Rltb t20 0)
            then
              (t21, t22)
            else
              (t23, t24)
          else
            (t27, t28)
      else
        if (Rltb t16 t20)
        then
          if (Rltb t20 t18)
          then
            if (Rltb t18 0)
            then
              (t21, t22)
            else
              (t29, t30)
          else
            if (Rltb t20 0)
            then
              (t21, t22)
            else
              (t23, t24)
        else
          (t32, t34)
    else
      if (Rltb 0 t18)
      then
        if (Rltb t18 t16)
        then
          if (Rltb t16 0)
          then
            if (Rltb 0 t20)
            then
              if (Rltb t20 t18)
              then
                (t29, t30)
              else
                (t23, t24)
            else
              if (Rltb t18 t20)
              then
                if (Rltb t20 0)
                then
                  (t21, t22)
                else
                  (t35, t36)
              else
                (t29, t30)
          else
            if (Rltb t16 t20)
            then
              if (Rltb t20 t18)
              then
                (t29, t30)
              else
                if (Rltb t20 0)
                then
                  (t21, t22)
                else
                  (t23, t24)
            else
              (t37, t38)
        else
          if (Rltb t18 t20)
          then
            if (Rltb t20 0)
            then
              (t21, t22)
            else
              (t23, t24)
          else
            (t27, t28)
      else
        if (Rltb 0 t20)
        then
          if (Rltb t20 t18)
          then
            if (Rltb t18 0)
            then
              (t21, t22)
            else
              (t29, t30)
          else
            (t23, t24)
        else
          (t39, t40)
  else
    if (Rltb (1125899918101623 / 1125899906842624) t13)
    then
      if (Rltb 0 t16)
      then
        if (Rltb t16 t18)
        then
          if (Rltb t18 0)
          then
            if (Rltb 0 t20)
            then
              if (Rltb t20 t18)
              then
                (t21, t22)
              else
                (t23, t24)
            else
              (t25, t26)
          else
            if (Rltb t18 t20)
            then
              if (Rltb t20 0)
              then
                (t21, t22)
              else
                (t23, t24)
            else
              (t27, t28)
        else
          if (Rltb t16 t20)
          then
            if (Rltb t20 t18)
            then
              if (Rltb t18 0)
              then
                (t21, t22)
              else
                (t29, t30)
            else
              if (Rltb t20 0)
              then
                (t21, t22)
              else
                (t23, t24)
          else
            (t32, t34)
      else
        if (Rltb 0 t18)
        then
          if (Rltb t18 t16)
          then
            if (Rltb t16 0)
            then
              if (Rltb 0 t20)
              then
                if (Rltb t20 t18)
                then
                  (t29, t30)
                else
                  (t23, t24)
              else
                if (Rltb t18 t20)
                then
                  if (Rltb t20 0)
                  then
                    (t21, t22)
                  else
                    (t35, t36)
                else
                  (t29, t30)
            else
              if (Rltb t16 t20)
              then
                if (Rltb t20 t18)
                then
                  (t29, t30)
                else
                  if (Rltb t20 0)
                  then
                    (t21, t22)
                  else
                    (t23, t24)
              else
                (t37, t38)
          else
            if (Rltb t18 t20)
            then
              if (Rltb t20 0)
              then
                (t21, t22)
              else
                (t23, t24)
            else
              (t27, t28)
        else
          if (Rltb 0 t20)
          then
            if (Rltb t20 t18)
            then
              if (Rltb t18 0)
              then
                (t21, t22)
              else
                (t29, t30)
            else
              (t23, t24)
          else
            (t39, t40)
    else
      if (Rleb ((-3022314549036573) / 302231454903657293676544) t41)
      then
        if (Rleb (t13 + t41) (1125899918101623 / 1125899906842624))
        then
          (((t31 + p2_0) / 3), ((t33 + p2_1) / 3))
        else
          if (Rltb 0 t16)
          then
            if (Rltb t16 t18)
            then
              if (Rltb t18 0)
              then
                if (Rltb 0 t20)
                then
                  if (Rltb t20 t18)
                  then
                    (t21, t22)
                  else
                    (t23, t24)
                else
                  (t25, t26)
              else
                if (Rltb t18 t20)
                then
                  if (Rltb t20 0)
                  then
                    (t21, t22)
                  else
                    (t23, t24)
                else
                  (t27, t28)
            else
              if (Rltb t16 t20)
              then
                if (Rltb t20 t18)
                then
                  if (Rltb t18 0)
                  then
                    (t21, t22)
                  else
                    (t29, t30)
                else
                  if (Rltb t20 0)
                  then
                    (t21, t22)
                  else
                    (t23, t24)
              else
                (t32, t34)
          else
            if (Rltb 0 t18)
            then
              if (Rltb t18 t16)
              then
                if (Rltb t16 0)
                then
                  if (Rltb 0 t20)
                  then
                    if (Rltb t20 t18)
                    then
                      (t29, t30)
                    else
                      (t23, t24)
                  else
                    if (Rltb t18 t20)
                    then
                      if (Rltb t20 0)
                      then
                        (t21, t22)
                      else
                        (t35, t36)
                    else
                      (t29, t30)
                else
                  if (Rltb t16 t20)
                  then
                    if (Rltb t20 t18)
                    then
                      (t29, t30)
                    else
                      if (Rltb t20 0)
                      then
                        (t21, t22)
                      else
                        (t23, t24)
                  else
                    (t37, t38)
              else
                if (Rltb t18 t20)
                then
                  if (Rltb t20 0)
                  then
                    (t21, t22)
                  else
                    (t23, t24)
                else
                  (t27, t28)
            else
              if (Rltb 0 t20)
              then
                if (Rltb t20 t18)
                then
                  if (Rltb t18 0)
                  then
                    (t21, t22)
                  else
                    (t29, t30)
                else
                  (t23, t24)
              else
                (t39, t40)
      else
        if (Rltb 0 t16)
        then
          if (Rltb t16 t18)
          then
            if (Rltb t18 0)
            then
              if (Rltb 0 t20)
              then
                if (Rltb t20 t18)
                then
                  (t21, t22)
                else
                  (t23, t24)
              else
                (t25, t26)
            else
              if (Rltb t18 t20)
              then
                if (Rltb t20 0)
                then
                  (t21, t22)
                else
                  (t23, t24)
              else
                (t27, t28)
          else
            if (Rltb t16 t20)
            then
              if (Rltb t20 t18)
              then
                if (Rltb t18 0)
                then
                  (t21, t22)
                else
                  (t29, t30)
              else
                if (Rltb t20 0)
                then
                  (t21, t22)
                else
                  (t23, t24)
            else
              (t32, t34)
        else
          if (Rltb 0 t18)
          then
            if (Rltb t18 t16)
            then
              if (Rltb t16 0)
              then
                if (Rltb 0 t20)
                then
                  if (Rltb t20 t18)
                  then
                    (t29, t30)
                  else
                    (t23, t24)
                else
                  if (Rltb t18 t20)
                  then
                    if (Rltb t20 0)
                    then
                      (t21, t22)
                    else
                      (t35, t36)
                  else
                    (t29, t30)
              else
                if (Rltb t16 t20)
                then
                  if (Rltb t20 t18)
                  then
                    (t29, t30)
                  else
                    if (Rltb t20 0)
                    then
                      (t21, t22)
                    else
                      (t23, t24)
                else
                  (t37, t38)
            else
              if (Rltb t18 t20)
              then
                if (Rltb t20 0)
                then
                  (t21, t22)
                else
                  (t23, t24)
              else
                (t27, t28)
          else
            if (Rltb 0 t20)
            then
              if (Rltb t20 t18)
              then
                if (Rltb t18 0)
                then
                  (t21, t22)
                else
                  (t29, t30)
              else
                (t23, t24)
            else
              (t39, t40).

(* learner1D.uniform_loss; 1 path(s) *)
Definition l1_uniform_loss (x0 x1 y0 y1 : R) : R :=
  (x1 - x0).

(* learner1D.default_loss; 1 path(s) *)
Definition l1_default_loss (x0 x1 y0 y1 : R) : R :=
  let t1 := (x1 - x0) in
  let t2 := (y1 - y0) in
  (sqrt ((t1 * t1) + (t2 * t2))).

(* learner1D.default_loss -- 2-component values; 2 path(s) *)
Definition l1_default_loss_v2 (x0 x1 y0_0 y0_1 y1_0 y1_1 : R) : R :=
  let t1 := (x1 - x0) in
  let t2 := (t1 * t1) in
  let t3 := (Rabs (y0_1 - y1_1)) in
  let t4 := (sqrt (t2 + (t3 * t3))) in
  let t5 := (Rabs (y0_0 - y1_0)) in
  let t6 := (sqrt (t2 + (t5 * t5))) in
  if (Rleb t4 t6)
  then
    t6
  else
    t4.

(* learner1D.abs_min_log_loss; 1 path(s) *)
Definition l1_abs_min_log_loss (x0 x1 y0 y1 : R) : R :=
  let t1 := (x1 - x0) in
  let t2 := ((ln (Rabs y1)) - (ln (Rabs y0))) in
  (sqrt ((t1 * t1) + (t2 * t2))).

(* learner1D.triangle_loss -- neighbours present: (1, 1, 1, 1); 1 path(s) *)
Definition l1_triangle_loss_full (x0 x1 x2 x3 y0 y1 y2 y3 : R) : R :=
  ((((Rabs (((x0 - x2) * (y1 - y2)) - ((x1 - x2) * (y0 - y2)))) / 2) + ((Rabs (((x1 - x3) * (y2 - y3)) - ((x2 - x3) * (y1 - y3)))) / 2)) / 2).

(* learner1D.triangle_loss -- neighbours present: (0, 1, 1, 1); 1 path(s) *)
Definition l1_triangle_loss_left (x1 x2 x3 y1 y2 y3 : R) : R :=
  (((Rabs (((x1 - x3) * (y2 - y3)) - ((x2 - x3) * (y1 - y3)))) / 2) / 1).

(* learner1D.triangle_loss -- neighbours present: (1, 1, 1, 0); 1 path(s) *)
Definition l1_triangle_loss_right (x0 x1 x2 y0 y1 y2 : R) : R :=
  (((Rabs (((x0 - x2) * (y1 - y2)) - ((x1 - x2) * (y0 - y2)))) / 2) / 1).

(* learner1D.triangle_loss -- neighbours present: (0, 1, 1, 0); 1 path(s) *)
Definition l1_triangle_loss_none (x1 x2 y1 y2 : R) : R :=
  (x2 - x1).

(* learner1D.triangle_loss -- 2-component values, right neighbour missing; 3 path(s) *)
Definition l1_triangle_loss_v2 (x0 x1 x2 y0_0 y0_1 y1_0 y1_1 y2_0 y2_1 : R) : res :=
  let t1 := (x1 - x2) in
  let t2 := (y1_0 - y2_0) in
  let t3 := (y1_1 - y2_1) in
  let t4 := (((t1 * t1) + (t2 * t2)) + (t3 * t3)) in
  let t5 := (0 - (t4 * t4)) in
  let t6 := (x0 - x1) in
  let t7 := (y0_0 - y1_0) in
  let t8 := (y0_1 - y1_1) in
  let t9 := (((t6 * t6) + (t7 * t7)) + (t8 * t8)) in
  let t10 := (x0 - x2) in
  let t11 := (y0_0 - y2_0) in
  let t12 := (y0_1 - y2_1) in
  let t13 := (((t10 * t10) + (t11 * t11)) + (t12 * t12)) in
  let t14 := ((t9 * 0) - (t4 * t13)) in
  let t15 := ((t9 * t4) - (0 * t13)) in
  let t16 := (0 - (t4 * 1)) in
  let t17 := (1 * t4) in
  let t18 := ((1 * t13) - (t9 * 1)) in
  let t19 := (((((0 * (((0 * t5) - (t9 * t14)) + (t13 * t15))) - (1 * (((1 * t5) - (t9 * t16)) + (t13 * t17)))) + (1 * (((1 * t14) - (0 * t16)) + (t13 * t18)))) - (1 * (((1 * t15) - (0 * t17)) + (t9 * t18)))) / (-16)) in
  if (Rltb t19 0)
  then
    if (Rltb ((-2535301200456459) / 2535301200456458802993406410752) t19)
    then
      Val 0
    else
      Err
  else
    Val ((sqrt t19) / 1).

(* learner1D.resolution_loss_function; 3 path(s) *)
Definition l1_resolution_loss (min_length max_length x0 x1 y0 y1 : R) : res :=
  let t1 := (x1 - x0) in
  let t2 := (y1 - y0) in
  if (Rltb t1 min_length)
  then
    Val 0
  else
    if (Rltb max_length t1)
    then
      PInf
    else
      Val (sqrt ((t1 * t1) + (t2 * t2))).

(* learner1D.curvature_loss_function; 1 path(s) *)
Definition l1_curvature_loss (area_factor euclid_factor horizontal_factor x0 x1 x2 x3 y0 y1 y2 y3 : R) : R :=
  let t1 := (x2 - x1) in
  let t2 := (y2 - y1) in
  (((area_factor * (sqrt ((((Rabs (((x0 - x2) * (y1 - y2)) - ((x1 - x2) * (y0 - y2)))) / 2) + ((Rabs (((x1 - x3) * (y2 - y3)) - ((x2 - x3) * (y1 - y3)))) / 2)) / 2))) + (euclid_factor * (sqrt ((t1 * t1) + (t2 * t2))))) + (horizontal_factor * t1)).

(* learner1D.linspace -- n = 1 (empty list printed as 0); 1 path(s) *)
Definition l1_linspace1 (a b : R) : R :=
  0.

(* learner1D.linspace -- n = 2; 1 path(s) *)
Definition l1_linspace2 (a b : R) : R :=
  (a + (((b - a) / 2) * 1)).

(* learner1D.linspace -- n = 3; 1 path(s) *)
Definition l1_linspace3 (a b : R) : (R * R) :=
  let t1 := ((b - a) / 3) in
  ((a + (t1 * 1)), (a + (t1 * 2))).

(* learner1D.linspace -- n = 4; 1 path(s) *)
Definition l1_linspace4 (a b : R) : (R * R * R) :=
  let t1 := ((b - a) / 4) in
  ((a + (t1 * 1)), (a + (t1 * 2)), (a + (t1 * 3))).

(* learner1D.linspace -- n = 5; 1 path(s) *)
Definition l1_linspace5 (a b : R) : (R * R * R * R) :=
  let t1 := ((b - a) / 5) in
  ((a + (t1 * 1)), (a + (t1 * 2)), (a + (t1 * 3)), (a + (t1 * 4))).

(* learner1D.linspace -- n = 8; 1 path(s) *)
Definition l1_linspace8 (a b : R) : (R * R * R * R * R * R * R) :=
  let t1 := ((b - a) / 8) in
  ((a + (t1 * 1)), (a + (t1 * 2)), (a + (t1 * 3)), (a + (t1 * 4)), (a + (t1 * 5)), (a + (t1 * 6)), (a + (t1 * 7))).

(* learner2D.areas -- one triangle; 1 path(s) *)
Definition l2_areas (p0_0 p0_1 p1_0 p1_1 p2_0 p2_1 : R) : R :=
  ((Rabs (((p0_0 - p2_0) * (p1_1 - p2_1)) - ((p0_1 - p2_1) * (p1_0 - p2_0)))) / 2).

(* learner2D.uniform_loss -- one triangle; 1 path(s) *)
Definition l2_uniform_loss (p0_0 p0_1 p1_0 p1_1 p2_0 p2_1 : R) : R :=
  (sqrt ((Rabs (((p0_0 - p2_0) * (p1_1 - p2_1)) - ((p0_1 - p2_1) * (p1_0 - p2_0)))) / 2)).
